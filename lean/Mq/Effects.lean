/-!
# Mq.Effects — an abstract interleaving semantics over effect summaries (C13)

What a theorem can carry about concurrency is the logic of the argument: if every operation a
goroutine performs writes only memory that is private to that goroutine (allocated by the
operation itself, or handed to it alone, like its `io.Writer` or its own stream), then in *every*
interleaving of any number of goroutines there is no data race, the shared memory never changes,
and every read of shared memory returns the initial value — so every operation computes exactly
what it computes when run alone. The Go memory model itself is not modelled.
-/
namespace Mq.Effects

inductive Loc
  | shared (n : Nat)              -- packet fields, slices reachable from them, package variables
  | priv (tid : Nat) (n : Nat)    -- memory owned by goroutine `tid`
deriving Repr, DecidableEq

structure Access where
  tid : Nat
  loc : Loc
  write : Bool
  val : Nat := 0                  -- the value written (ignored for reads)
deriving Repr, DecidableEq

/-- two accesses to one location from different goroutines, at least one a write (the harnessed
goroutines do not synchronise, so no pair is ordered by happens-before) -/
def Race (a b : Access) : Prop := a.tid ≠ b.tid ∧ a.loc = b.loc ∧ (a.write = true ∨ b.write = true)

/-- an execution is any sequence of accesses: every interleaving of every set of threads is one -/
abbrev Exec := List Access

/-- private memory is touched only by its owner (what "private" means) -/
def OwnPriv (e : Exec) : Prop := ∀ a ∈ e, ∀ t n, a.loc = .priv t n → a.tid = t

/-- the effect summary: writes go to private memory only -/
def Confined (e : Exec) : Prop := ∀ a ∈ e, a.write = true → ∃ t n, a.loc = .priv t n

structure Mem where
  shared : Nat → Nat
  priv : Nat → Nat → Nat

def Mem.step (m : Mem) (a : Access) : Mem :=
  if a.write then
    match a.loc with
    | .shared n => { m with shared := fun k => if k = n then a.val else m.shared k }
    | .priv t n => { m with priv := fun t' k => if t' = t ∧ k = n then a.val else m.priv t' k }
  else m

def Mem.read (m : Mem) : Loc → Nat
  | .shared n => m.shared n
  | .priv t n => m.priv t n

end Mq.Effects
