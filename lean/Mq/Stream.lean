import Mq.Fill
/-!
# Mq.Stream — `io.Reader` delivery scripts, `io.ReadFull`, `ReadPacket`, `WriteTo`

A `Reader` enumerates the behaviours the `io.Reader` contract allows for a stream that
eventually delivers `data` and then ends with `fail`: each `Read(p)` returns at most
`len(p)` bytes — how many is taken from the schedule (`0` = the legal `(0, nil)`; schedule
exhausted = as many as asked for) — and when the data has run out, the failure, either together
with the last bytes (`eofWithData`) or on the following call.
-/
namespace Mq

structure Reader where
  data : Bytes
  sched : List Nat := []
  eofWithData : Bool := false
  fail : IOErr := .eof
deriving Repr

namespace Reader

def contig (data : Bytes) : Reader := { data := data }

/-- how many bytes the next `Read(p)` with `len(p) = want` delivers -/
def chunk (r : Reader) (want : Nat) : Nat := min (min (r.sched.headD want) want) r.data.length

def next (r : Reader) (want : Nat) : Reader :=
  { r with data := r.data.drop (r.chunk want), sched := r.sched.tail }

/-- one `Read(p)`, `len(p) = want > 0`: bytes, error, reader afterwards -/
def read (r : Reader) (want : Nat) : Bytes × Option IOErr × Reader :=
  if r.data = [] then ([], some r.fail, r)
  else (r.data.take (r.chunk want),
        (if r.data.length ≤ r.chunk want ∧ r.eofWithData = true then some r.fail else none),
        r.next want)

end Reader

/-- `io.ReadFull(r, buf)` with `len(buf) = want`, from its documented contract: reads until
`want` bytes arrived; error only if fewer were read; `EOF` only if none were; an error
returned together with the final bytes is dropped. -/
def readFullAux : Nat → Reader → Nat → Bytes → Bytes × Option IOErr × Reader
  | 0, r, _, acc => (acc, some .unexpectedEOF, r)         -- fuel exhausted (unreachable, `readFull`)
  | fuel + 1, r, want, acc =>
    if want = 0 then (acc, none, r) else
    let res := r.read want
    let acc' := acc ++ res.1
    if want ≤ res.1.length then (acc', none, res.2.2)
    else match res.2.1 with
      | none => readFullAux fuel res.2.2 (want - res.1.length) acc'
      | some .eof => (acc', some (if acc' = [] then .eof else .unexpectedEOF), res.2.2)
      | some x => (acc', some x, res.2.2)

def readFull (r : Reader) (want : Nat) : Bytes × Option IOErr × Reader :=
  readFullAux (r.sched.length + want + 1) r want []

/-- outcome of `ReadPacket` -/
inductive RP
  | pkt (p : Packet)
  | err (e : Err)
  | panic
  | hang
deriving Repr, DecidableEq

/-- `vbint.ReadFrom`: one `io.ReadFull` per byte; size guard after the addition. `fuel` bounds
the loop (5 iterations always suffice: the guard fires on the fifth byte). -/
def readVb : Nat → Reader → Nat → Nat → (Option Nat × Option Err) × Reader
  | 0, r, _, _ => ((none, none), r)                       -- unreachable with fuel ≥ 5
  | fuel + 1, r, mult, acc =>
    match readFull r 1 with
    | (_, some e, r') => ((none, some (.io e)), r')
    | (bs, none, r') =>
      match bs with
      | [] => ((none, none), r')                          -- unreachable: ReadFull returned 1 byte
      | b :: _ =>
        let acc' := acc + (b.toNat % 128) * mult
        if mult > 128 * 128 * 128 then ((none, some .sizeExceeded), r')
        else if b.toNat < 128 then ((some acc', none), r')
        else readVb fuel r' (mult * 128) acc'

/-- `ReadPacket(r)`: fixed header (first byte, remaining length), dispatch, body, decode. -/
def readPacket (r : Reader) : RP × Reader :=
  match readFull r 1 with
  | (_, some e, r) => (.err (.io e), r)
  | ([], none, r) => (.hang, r)                           -- unreachable
  | (b0 :: _, none, r) =>
    match readVb 5 r 1 0 with
    | ((_, some e), r) => (.err e, r)
    | ((none, none), r) => (.hang, r)                     -- unreachable
    | ((some n, none), r) =>
      let p := Packet.dispatch b0
      if n = 0 then (.pkt p, r)
      else match readFull r n with
        | (_, some e, r) => (.err (.io e), r)
        | (body, none, r) =>
          match p.unmarshal body with
          | (q, .ok) => (.pkt q, r)
          | (_, .err e) => (.err e, r)
          | (_, .panic) => (.panic, r)
          | (_, .hang) => (.hang, r)

/-! ## writers -/

/-- an `io.Writer` script: how many bytes it accepts (`none` = all) and the error it reports.
The `io.Writer` contract requires an error whenever it accepts fewer bytes than offered. -/
structure Writer where
  accept : Option Nat := none
  err : Option Nat := none
deriving Repr

structure WriteRes where
  calls : List Bytes          -- the argument of every `Write` call, in order
  n : Nat
  err : Option Err            -- `.io (.custom t)` = the writer's own error, passed through
  panicked : Bool := false
deriving Repr

def Writer.write (w : Writer) (bs : Bytes) : Nat × Option Err :=
  let n := match w.accept with | none => bs.length | some k => min k bs.length
  (n, w.err.map fun t => .io (.custom t))

/-- `p.WriteTo(w)`: `b := make([]byte, p.fill(_LEN, 0)); p.fill(b, 0); n, err := w.Write(b); return int64(n), err`
— exactly one `Write` with the buffer the two-pass encoder produced (`Packet.encodeG`) -/
def writeTo (p : Packet) (w : Writer) : WriteRes :=
  match p.encodeG with
  | .bytes b => let (n, e) := w.write b; { calls := [b], n := n, err := e }
  | .refuse => { calls := [], n := 0, err := some .cannotWrite }
  | .panic => { calls := [], n := 0, err := none, panicked := true }

end Mq
