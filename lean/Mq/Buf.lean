import Mq.Wire
/-!
# Mq.Buf — `buffer.go`: the sticky-error cursor and the property loop

Representation: Go's `buffer{data, i, err}` is kept as `rest = data[i:]` and the status.
Every Go expression over `i` and `len(data)` used by the library is a function of `rest`:
`len(data) - b.i = rest.length`, `b.atEnd()`/`b.i == len(data)` is `rest = []`,
`b.i >= len(b.data)` is `rest = []`, and `b.i < end` for `end := b.i₀ + n` is
`rest₀.length - rest.length < n`.
-/
namespace Mq

structure Buf where
  rest : Bytes
  st : St := .ok
deriving Repr

/-- `buffer.get(v)`: no-op unless the status is `ok`; "missing data" when nothing is left;
otherwise decode at the cursor and advance by the recomputed width. `old` is what the
destination held before (returned unchanged on failure). -/
def Buf.get {α} (b : Buf) (dec : Dec α) (old : α) : Buf × α :=
  match b.st with
  | .ok =>
    if b.rest = [] then ({ b with st := .err .missing }, old)
    else match dec b.rest with
      | .ok v w =>
        -- `w := v.width(); if b.i+w > len(b.data) { b.err = ErrMissingData; return }` (repair of D13): the value is
        -- stored, the cursor stays
        if w ≤ b.rest.length then ({ rest := b.rest.drop w, st := .ok }, v) else ({ b with st := .err .missing }, v)
      | .err e => ({ b with st := .err e }, old)
      | .panic => ({ b with st := .panic }, old)
  | _ => (b, old)

/-! ## property values -/

inductive WKind | u8 | u16 | u32 | bool | bin | pair | vb
deriving Repr, DecidableEq

inductive WVal
  | u8 (v : UInt8) | u16 (v : UInt16) | u32 (v : UInt32) | bool (v : Bool)
  | bin (v : Bytes) | pair (k v : Bytes) | vb (n : Nat)
deriving Repr, DecidableEq, Inhabited

def WVal.kind : WVal → WKind
  | .u8 _ => .u8 | .u16 _ => .u16 | .u32 _ => .u32 | .bool _ => .bool
  | .bin _ => .bin | .pair _ _ => .pair | .vb _ => .vb

def encV : WVal → Bytes
  | .u8 v => [v]
  | .u16 v => encU16 v
  | .u32 v => encU32 v
  | .bool v => encBool v
  | .bin v => encBin v
  | .pair k v => encPair (k, v)
  | .vb n => encVb n

/-- `fillProp` writes nothing for the zero value (empty key for a user property). -/
def WVal.isZero : WVal → Bool
  | .u8 v => v == 0 | .u16 v => v == 0 | .u32 v => v == 0 | .bool v => !v
  | .bin v => v.isEmpty | .pair k _ => k.isEmpty | .vb n => n == 0

/-- `v.fillProp(buf, i, id)` -/
def encPropOpt (id : UInt8) (v : WVal) : Bytes := if v.isZero then [] else id :: encV v

/-- decoder of a property value of kind `k`. Destinations of `bin` properties are passed as
`old` by the caller through `decKOld`; the loop itself uses a fresh destination description. -/
def decK (old : Bytes) : WKind → Dec WVal
  | .u8 => fun d => (decU8 d).map .u8
  | .u16 => fun d => (decU16 d).map .u16
  | .u32 => fun d => (decU32 d).map .u32
  | .bool => fun d => (decBool d).map .bool
  | .bin => fun d => (decBin old d).map .bin
  | .pair => fun d => (decPair d).map (fun kv => .pair kv.1 kv.2)
  | .vb => fun d => (decVb d).map .vb

structure PropOcc where
  id : UInt8
  val : WVal
deriving Repr, DecidableEq

abbrev PropTable := List (UInt8 × WKind)

/-- The body of `getAny`'s loop, `for b.i < end { … }`, collecting the decoded occurrences in
order. `n0` is `rest.length` when the loop was entered, `plen` the declared property length.
`oldOf id` is the current content of the `bin` destination `id` maps to (Go decodes into the
packet's field; see `decBin`). One unit of fuel per iteration; `hang` when it runs out. -/
def getAnyLoop (tbl : PropTable) (oldOf : UInt8 → List PropOcc → Bytes) (n0 plen : Nat) :
    Nat → Buf → List PropOcc → Buf × List PropOcc
  | 0, b, acc => ({ b with st := .hang }, acc)
  | fuel + 1, b, acc =>
    if n0 - b.rest.length < plen then
      let (b, id) := b.get decU8 0
      if b.st ≠ .ok then (b, acc)                         -- `if b.err != nil { return }`
      else match tbl.lookup id with
        | some k =>
          let (b', v) := b.get (decK (oldOf id acc) k) (.u8 0)
          -- on failure the occurrence is not recorded (the packet is dropped anyway)
          if b'.st = .ok then getAnyLoop tbl oldOf n0 plen fuel b' (acc ++ [⟨id, v⟩])
          else getAnyLoop tbl oldOf n0 plen fuel b' acc
        | none =>
          if id = 0x26 then                               -- UserProperty
            let (b', v) := b.get (decK [] .pair) (.u8 0)
            if b'.st = .ok then getAnyLoop tbl oldOf n0 plen fuel b' (acc ++ [⟨id, v⟩])
            else getAnyLoop tbl oldOf n0 plen fuel b' acc
          else if id = 0x0b then                          -- SubscriptionID
            let (b', v) := b.get (decK [] .vb) (.u8 0)
            if b'.st = .ok then getAnyLoop tbl oldOf n0 plen fuel b' (acc ++ [⟨id, v⟩])
            else getAnyLoop tbl oldOf n0 plen fuel b' acc
          else
            getAnyLoop tbl oldOf n0 plen fuel { b with st := .err (.unknownProp id) } acc
    else (b, acc)

/-- `buffer.getAny(fields, addProp)`. -/
def Buf.getAny (b : Buf) (tbl : PropTable) (oldOf : UInt8 → List PropOcc → Bytes) :
    Buf × List PropOcc :=
  if b.rest = [] then (b, [])                             -- `if b.atEnd() { return }`
  else
    let (b, plen) := b.get decVb 0
    getAnyLoop tbl oldOf b.rest.length plen (b.rest.length + 1) b []

/-- previous content is always empty: the common case of decoding into a fresh packet where a
`bin` property occurs at most once. Used only where stated. -/
def noOld : UInt8 → List PropOcc → Bytes := fun _ _ => []

/-- last non-empty `bin` value recorded for `id` so far, else `init id` — what the Go
destination field holds at that moment. -/
def lastBin (init : UInt8 → Bytes) (id : UInt8) (acc : List PropOcc) : Bytes :=
  acc.foldl (fun cur o => if o.id = id then (match o.val with | .bin v => v | _ => cur) else cur)
    (init id)

end Mq
