import Mq.Packet.Ack
import Mq.Packet.Simple
import Mq.Packet.SubAck
import Mq.Packet.Subscribe
import Mq.Packet.Publish
import Mq.Packet.ConnAck
import Mq.Packet.Connect
/-!
# Mq.Packet — the sum of the 16 Go packet types and the type dispatch of `packet.go`
-/
namespace Mq

inductive Packet
  | undefined (p : Undefined)
  | connect (p : Connect)
  | connack (p : ConnAck)
  | publish (p : Publish)
  | puback (p : Ack)
  | pubrec (p : Ack)
  | pubrel (p : Ack)
  | pubcomp (p : Ack)
  | subscribe (p : Subscribe)
  | suback (p : SubAck)
  | unsubscribe (p : Unsubscribe)
  | unsuback (p : SubAck)
  | pingreq (p : Ping)
  | pingresp (p : Ping)
  | disconnect (p : Disconnect)
  | auth (p : Auth)
deriving Repr, DecidableEq

namespace Packet

/-- the dynamic Go type, numbered like the MQTT packet types (0 = Undefined) -/
def kind : Packet → Nat
  | undefined _ => 0 | connect _ => 1 | connack _ => 2 | publish _ => 3 | puback _ => 4
  | pubrec _ => 5 | pubrel _ => 6 | pubcomp _ => 7 | subscribe _ => 8 | suback _ => 9
  | unsubscribe _ => 10 | unsuback _ => 11 | pingreq _ => 12 | pingresp _ => 13
  | disconnect _ => 14 | auth _ => 15

def kindName : Nat → String
  | 0 => "Undefined" | 1 => "Connect" | 2 => "ConnAck" | 3 => "Publish" | 4 => "PubAck"
  | 5 => "PubRec" | 6 => "PubRel" | 7 => "PubComp" | 8 => "Subscribe" | 9 => "SubAck"
  | 10 => "Unsubscribe" | 11 => "UnsubAck" | 12 => "PingReq" | 13 => "PingResp"
  | 14 => "Disconnect" | _ => "Auth"

/-- the `fixed` field -/
def fixed : Packet → UInt8
  | undefined p => p.fixed | connect p => p.fixed | connack p => p.fixed | publish p => p.fixed
  | puback p => p.fixed | pubrec p => p.fixed | pubrel p => p.fixed | pubcomp p => p.fixed
  | subscribe p => p.fixed | suback p => p.fixed | unsubscribe p => p.fixed | unsuback p => p.fixed
  | pingreq p => p.fixed | pingresp p => p.fixed | disconnect p => p.fixed | auth p => p.fixed

/-- what `WriteTo` hands to the writer. -/
inductive Enc
  | bytes (b : Bytes)
  | refuse          -- Undefined: error, nothing written
  | panic           -- nil will dereference in Connect.payload
deriving Repr, DecidableEq

def encode : Packet → Enc
  | undefined _ => .refuse
  | connect p => match p.encode? with | some b => .bytes b | none => .panic
  | connack p => .bytes p.encode
  | publish p => .bytes p.encode
  | puback p | pubrec p | pubrel p | pubcomp p => .bytes p.encode
  | subscribe p => .bytes p.encode
  | suback p | unsuback p => .bytes p.encode
  | unsubscribe p => .bytes p.encode
  | pingreq p | pingresp p => .bytes p.encode
  | disconnect p => .bytes p.encode
  | auth p => .bytes p.encode

/-- `UnmarshalBinary(data)` on an existing packet value -/
def unmarshal : Packet → Bytes → Packet × St
  | undefined p, d => let (q, s) := p.unmarshal d; (undefined q, s)
  | connect p, d => let (q, s) := p.unmarshal d; (connect q, s)
  | connack p, d => let (q, s) := p.unmarshal d; (connack q, s)
  | publish p, d => let (q, s) := p.unmarshal d; (publish q, s)
  | puback p, d => let (q, s) := p.unmarshal d; (puback q, s)
  | pubrec p, d => let (q, s) := p.unmarshal d; (pubrec q, s)
  | pubrel p, d => let (q, s) := p.unmarshal d; (pubrel q, s)
  | pubcomp p, d => let (q, s) := p.unmarshal d; (pubcomp q, s)
  | subscribe p, d => let (q, s) := p.unmarshal d; (subscribe q, s)
  | suback p, d => let (q, s) := p.unmarshal d; (suback q, s)
  | unsubscribe p, d => let (q, s) := p.unmarshal d; (unsubscribe q, s)
  | unsuback p, d => let (q, s) := p.unmarshal d; (unsuback q, s)
  | pingreq p, d => let (q, s) := p.unmarshal d; (pingreq q, s)
  | pingresp p, d => let (q, s) := p.unmarshal d; (pingresp q, s)
  | disconnect p, d => let (q, s) := p.unmarshal d; (disconnect q, s)
  | auth p, d => let (q, s) := p.unmarshal d; (auth q, s)

def view : Packet → View
  | undefined p => p.view | connect p => p.view | connack p => p.view | publish p => p.view
  | puback p | pubrec p | pubrel p | pubcomp p => p.view
  | subscribe p => p.view | suback p | unsuback p => p.view | unsubscribe p => p.view
  | pingreq p | pingresp p => p.view | disconnect p => p.view | auth p => p.view

/-- `ReadRemaining`'s switch on `byte(f.fixed) & 0xf0`: the zero value of the selected type with
`fixed` set to the received first byte (`&Undefined{}` keeps `fixed` zero). -/
def dispatch (b0 : UInt8) : Packet :=
  match (b0 >>> 4).toNat with
  | 1 => connect { fixed := b0 }
  | 2 => connack { fixed := b0 }
  | 3 => publish { fixed := b0 }
  | 4 => puback { fixed := b0 }
  | 5 => pubrec { fixed := b0 }
  | 6 => pubrel { fixed := b0 }
  | 7 => pubcomp { fixed := b0 }
  | 8 => subscribe { fixed := b0 }
  | 9 => suback { fixed := b0 }
  | 10 => unsubscribe { fixed := b0 }
  | 11 => unsuback { fixed := b0 }
  | 12 => pingreq { fixed := b0 }
  | 13 => pingresp { fixed := b0 }
  | 14 => disconnect { fixed := b0 }
  | 15 => auth { fixed := b0 }
  | _ => undefined {}

/-- the `New…` constructors (kind 0 has none: the zero value) -/
def new : Nat → Packet
  | 1 => connect Connect.new | 2 => connack ConnAck.new | 3 => publish Publish.new
  | 4 => puback Ack.newPubAck | 5 => pubrec Ack.newPubRec | 6 => pubrel Ack.newPubRel
  | 7 => pubcomp Ack.newPubComp | 8 => subscribe Subscribe.new | 9 => suback SubAck.newSubAck
  | 10 => unsubscribe Unsubscribe.new | 11 => unsuback SubAck.newUnsubAck
  | 12 => pingreq Ping.newReq | 13 => pingresp Ping.newResp | 14 => disconnect Disconnect.new
  | 15 => auth Auth.new | _ => undefined {}

/-- the Go zero value `T{}` of each exported type -/
def zero : Nat → Packet
  | 1 => connect { fixed := 0 } | 2 => connack { fixed := 0 } | 3 => publish { fixed := 0 }
  | 4 => puback { fixed := 0 } | 5 => pubrec { fixed := 0 } | 6 => pubrel { fixed := 0 }
  | 7 => pubcomp { fixed := 0 } | 8 => subscribe { fixed := 0 } | 9 => suback { fixed := 0 }
  | 10 => unsubscribe { fixed := 0 } | 11 => unsuback { fixed := 0 }
  | 12 => pingreq { fixed := 0 } | 13 => pingresp { fixed := 0 } | 14 => disconnect { fixed := 0 }
  | 15 => auth { fixed := 0 } | _ => undefined {}

end Packet
end Mq
