import Mq.Packet.Common
/-!
# SUBSCRIBE, UNSUBSCRIBE (`subscribe.go`, `unsubscribe.go`, `topicfilter.go`)
-/
namespace Mq

structure TopicFilter where
  filter : Bytes := []
  options : UInt8 := 0
deriving Repr, DecidableEq

def TopicFilter.enc (f : TopicFilter) : Bytes := encBin f.filter ++ [f.options]

structure Subscribe where
  fixed : UInt8 := 0x82
  packetID : UInt16 := 0
  /-- Go `*vbint`: `none` is the nil pointer -/
  subscriptionID : Option Nat := none
  userProps : UserProps := []
  filters : List TopicFilter := []
deriving Repr, DecidableEq

namespace Subscribe
def new : Subscribe := {}
def table : PropTable := [(0x0b, .vb)]

def props (p : Subscribe) : Bytes :=
  (match p.subscriptionID with
   | some v => encPropOpt 0x0b (.vb v)
   | none => [])
  ++ encUserProps p.userProps

def payload (p : Subscribe) : Bytes := p.filters.flatMap TopicFilter.enc

def body (p : Subscribe) : Bytes :=
  encU16 p.packetID ++ encVb p.props.length ++ p.props ++ p.payload

def encode (p : Subscribe) : Bytes := frame p.fixed p.body

def applyOcc (p : Subscribe) (o : PropOcc) : Subscribe :=
  match o.val with
  | .vb n => if o.id = 0x0b then { p with subscriptionID := some n } else p
  | .pair k v => if o.id = 0x26 then { p with userProps := p.userProps ++ [(k, v)] } else p
  | _ => p

/-- `for { var f; get(&f.filter); get(&f.options); append; if b.err != nil || b.i == len(data) { break } }` -/
def filterLoop : Nat → Buf → List TopicFilter → Buf × List TopicFilter
  | 0, b, acc => ({ b with st := .hang }, acc)
  | fuel + 1, b, acc =>
    let (b, f) := b.get (decBin []) []
    let (b, o) := b.get decU8 0
    let acc := acc ++ [⟨f, o⟩]
    if b.st ≠ .ok then (b, acc)
    else if b.rest = [] then (b, acc)
    else filterLoop fuel b acc

def unmarshal (p : Subscribe) (data : Bytes) : Subscribe × St :=
  let b : Buf := { rest := data }
  let (b, pid) := b.get decU16 p.packetID
  let p := { p with packetID := pid }
  let (b, occs) := b.getAny table noOld
  let p := occs.foldl applyOcc p
  let (b, fs) := filterLoop (data.length + 1) b p.filters
  ({ p with filters := fs }, b.st)

/-- `SubscriptionID()` returns -1 for the nil pointer -/
def subscriptionIDInt (p : Subscribe) : Int :=
  match p.subscriptionID with
  | some v => v
  | none => -1

def view (p : Subscribe) : View :=
  [("Filters", .filters (p.filters.map fun f => (f.filter, f.options))),
   ("PacketID", .n p.packetID.toNat), ("SubscriptionID", .i p.subscriptionIDInt),
   ("UserProperties", .ups p.userProps)]
end Subscribe

structure Unsubscribe where
  fixed : UInt8 := 0xa2
  packetID : UInt16 := 0
  userProps : UserProps := []
  filters : List Bytes := []
deriving Repr, DecidableEq

namespace Unsubscribe
def new : Unsubscribe := {}

def props (p : Unsubscribe) : Bytes := encUserProps p.userProps
def payload (p : Unsubscribe) : Bytes := p.filters.flatMap encBin
def body (p : Unsubscribe) : Bytes :=
  encU16 p.packetID ++ encVb p.props.length ++ p.props ++ p.payload
def encode (p : Unsubscribe) : Bytes := frame p.fixed p.body

def applyOcc (p : Unsubscribe) (o : PropOcc) : Unsubscribe :=
  match o.val with
  | .pair k v => if o.id = 0x26 then { p with userProps := p.userProps ++ [(k, v)] } else p
  | _ => p

def filterLoop : Nat → Buf → List Bytes → Buf × List Bytes
  | 0, b, acc => ({ b with st := .hang }, acc)
  | fuel + 1, b, acc =>
    let (b, f) := b.get (decBin []) []
    let acc := acc ++ [f]
    if b.st ≠ .ok then (b, acc)
    else if b.rest = [] then (b, acc)
    else filterLoop fuel b acc

def unmarshal (p : Unsubscribe) (data : Bytes) : Unsubscribe × St :=
  let b : Buf := { rest := data }
  let (b, pid) := b.get decU16 p.packetID
  let p := { p with packetID := pid }
  let (b, occs) := b.getAny [] noOld
  let p := occs.foldl applyOcc p
  let (b, fs) := filterLoop (data.length + 1) b p.filters
  ({ p with filters := fs }, b.st)

def view (p : Unsubscribe) : View :=
  [("Filters", .strs p.filters), ("PacketID", .n p.packetID.toNat),
   ("UserProperties", .ups p.userProps)]
end Unsubscribe
end Mq
