import Mq.Buf
/-!
# Mq.Packet.Common — shared pieces of the packet models
-/
namespace Mq

abbrev UserProps := List (Bytes × Bytes)

/-- `UserProperties.properties(b, i)`: each pair through `fillProp` (skipped when the key is empty). -/
def encUserProps (ups : UserProps) : Bytes :=
  ups.flatMap fun kv => encPropOpt 0x26 (.pair kv.1 kv.2)

/-- first byte, remaining length, body: the common shape of every `fill`. -/
def frame (fixed : UInt8) (body : Bytes) : Bytes := fixed :: (encVb body.length ++ body)

/-- `bits.Has(b)`: `byte(v) & b == b` -/
def has (v b : UInt8) : Bool := v &&& b == b

/-- `bits.toggle(flag, on)` -/
def toggle (v flag : UInt8) (on : Bool) : UInt8 := if on then v ||| flag else v &&& ~~~flag

/-- keep the user properties recorded in an occurrence list, in order -/
def occPairs (occs : List PropOcc) : UserProps :=
  occs.filterMap fun o => match o.val with
    | .pair k v => if o.id = 0x26 then some (k, v) else none
    | _ => none

/-- canonical accessor values (what the correspondence check prints and compares) -/
inductive VV
  | n (v : Nat)
  | i (v : Int)
  | b (v : Bool)
  | s (v : Bytes)
  | ups (l : UserProps)
  | nats (l : List Nat)
  | strs (l : List Bytes)
  | filters (l : List (Bytes × UInt8))
deriving Repr, DecidableEq

abbrev View := List (String × VV)

def upsStr (l : UserProps) : String :=
  "[" ++ ",".intercalate (l.map fun kv => hexOfBytes kv.1 ++ ":" ++ hexOfBytes kv.2) ++ "]"

def VV.str : VV → String
  | .n v => toString v
  | .i v => toString v
  | .b v => if v then "true" else "false"
  | .s v => "x" ++ hexOfBytes v
  | .ups l => upsStr l
  | .nats l => "[" ++ ",".intercalate (l.map toString) ++ "]"
  | .strs l => "[" ++ ",".intercalate (l.map fun s => "x" ++ hexOfBytes s) ++ "]"
  | .filters l => "[" ++ ",".intercalate (l.map fun f => "x" ++ hexOfBytes f.1 ++ "/" ++ toString f.2.toNat) ++ "]"

def View.str (v : View) : String :=
  ";".intercalate (v.map fun kv => kv.1 ++ "=" ++ kv.2.str)

end Mq
