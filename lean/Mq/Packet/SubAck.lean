import Mq.Packet.Common
/-!
# SUBACK, UNSUBACK (`suback.go`, `unsuback.go`: identical up to the type name and first byte)
-/
namespace Mq

structure SubAck where
  fixed : UInt8
  packetID : UInt16 := 0
  reasonString : Bytes := []
  userProps : UserProps := []
  reasonCodes : Bytes := []
deriving Repr, DecidableEq

namespace SubAck
def newSubAck : SubAck := { fixed := 0x90 }
def newUnsubAck : SubAck := { fixed := 0xb0 }

def table : PropTable := [(0x1f, .bin)]

def props (p : SubAck) : Bytes := encPropOpt 0x1f (.bin p.reasonString) ++ encUserProps p.userProps

def body (p : SubAck) : Bytes :=
  encU16 p.packetID ++ encVb p.props.length ++ p.props ++ p.reasonCodes

def encode (p : SubAck) : Bytes := frame p.fixed p.body

def applyOcc (p : SubAck) (o : PropOcc) : SubAck :=
  match o.val with
  | .bin v => if o.id = 0x1f then { p with reasonString := v } else p
  | .pair k v => if o.id = 0x26 then { p with userProps := p.userProps ++ [(k, v)] } else p
  | _ => p

/-- `make([]uint8, len(data)-b.i)` then one `get` per element: on success the remaining bytes;
once the status is not `ok` every `get` is a no-op and the slice stays zero-filled. -/
def unmarshal (p : SubAck) (data : Bytes) : SubAck × St :=
  let b : Buf := { rest := data }
  let (b, pid) := b.get decU16 p.packetID
  let p := { p with packetID := pid }
  let (b, occs) := b.getAny table (lastBin fun _ => p.reasonString)
  let p := occs.foldl applyOcc p
  let codes := if b.st = .ok then b.rest else List.replicate b.rest.length 0
  ({ p with reasonCodes := codes }, b.st)

def view (p : SubAck) : View :=
  [("PacketID", .n p.packetID.toNat), ("ReasonCodes", .s p.reasonCodes),
   ("ReasonString", .s p.reasonString), ("UserProperties", .ups p.userProps)]
end SubAck
end Mq
