import Mq.Packet.Common
/-!
# PINGREQ, PINGRESP, DISCONNECT, AUTH, Undefined
-/
namespace Mq

/-! ## PingReq / PingResp -/
structure Ping where
  fixed : UInt8
deriving Repr, DecidableEq

namespace Ping
def newReq : Ping := { fixed := 0xc0 }
def newResp : Ping := { fixed := 0xd0 }
def encode (p : Ping) : Bytes := p.fixed :: encVb 0
/-- "there should not be any data": returns nil whatever the data -/
def unmarshal (p : Ping) (_data : Bytes) : Ping × St := (p, .ok)
def view (_p : Ping) : View := []
end Ping

/-! ## Disconnect -/
structure Disconnect where
  fixed : UInt8 := 0xe0
  reasonCode : UInt8 := 0
  sessionExpiryInterval : UInt32 := 0
  reasonString : Bytes := []
  serverReference : Bytes := []
  userProps : UserProps := []
deriving Repr, DecidableEq

namespace Disconnect
def new : Disconnect := {}
def table : PropTable := [(0x11, .u32), (0x1f, .bin), (0x1c, .bin)]

def props (p : Disconnect) : Bytes :=
  encPropOpt 0x11 (.u32 p.sessionExpiryInterval)
  ++ encPropOpt 0x1f (.bin p.reasonString)
  ++ encPropOpt 0x1c (.bin p.serverReference)
  ++ encUserProps p.userProps

def body (p : Disconnect) : Bytes :=
  if p.reasonCode = 0 ∧ p.props = [] then []
  else [p.reasonCode] ++ encVb p.props.length ++ p.props

def encode (p : Disconnect) : Bytes := frame p.fixed p.body

def applyOcc (p : Disconnect) (o : PropOcc) : Disconnect :=
  match o.val with
  | .u32 v => if o.id = 0x11 then { p with sessionExpiryInterval := v } else p
  | .bin v =>
    if o.id = 0x1f then { p with reasonString := v }
    else if o.id = 0x1c then { p with serverReference := v } else p
  | .pair k v => if o.id = 0x26 then { p with userProps := p.userProps ++ [(k, v)] } else p
  | _ => p

def binInit (p : Disconnect) (id : UInt8) : Bytes :=
  if id = 0x1f then p.reasonString else if id = 0x1c then p.serverReference else []

def unmarshal (p : Disconnect) (data : Bytes) : Disconnect × St :=
  let b : Buf := { rest := data }
  let (b, rc) := b.get decU8 p.reasonCode
  let p := { p with reasonCode := rc }
  let (b, occs) := b.getAny table (lastBin p.binInit)
  (occs.foldl applyOcc p, b.st)

def view (p : Disconnect) : View :=
  [("ReasonCode", .n p.reasonCode.toNat), ("ReasonString", .s p.reasonString),
   ("ServerReference", .s p.serverReference),
   ("SessionExpiryInterval", .n p.sessionExpiryInterval.toNat),
   ("UserProperties", .ups p.userProps)]
end Disconnect

/-! ## Auth -/
structure Auth where
  fixed : UInt8 := 0xf0
  reasonCode : UInt8 := 0
  reasonString : Bytes := []
  authMethod : Bytes := []
  authData : Bytes := []
  userProps : UserProps := []
deriving Repr, DecidableEq

namespace Auth
def new : Auth := {}
def table : PropTable := [(0x15, .bin), (0x16, .bin), (0x1f, .bin)]

def props (p : Auth) : Bytes :=
  encPropOpt 0x15 (.bin p.authMethod)
  ++ encPropOpt 0x16 (.bin p.authData)
  ++ encPropOpt 0x1f (.bin p.reasonString)
  ++ encUserProps p.userProps

def body (p : Auth) : Bytes :=
  if p.reasonCode = 0 ∧ p.props = [] then []
  else [p.reasonCode] ++ encVb p.props.length ++ p.props

def encode (p : Auth) : Bytes := frame p.fixed p.body

def applyOcc (p : Auth) (o : PropOcc) : Auth :=
  match o.val with
  | .bin v =>
    if o.id = 0x15 then { p with authMethod := v }
    else if o.id = 0x16 then { p with authData := v }
    else if o.id = 0x1f then { p with reasonString := v } else p
  | .pair k v => if o.id = 0x26 then { p with userProps := p.userProps ++ [(k, v)] } else p
  | _ => p

def binInit (p : Auth) (id : UInt8) : Bytes :=
  if id = 0x15 then p.authMethod else if id = 0x16 then p.authData
  else if id = 0x1f then p.reasonString else []

def unmarshal (p : Auth) (data : Bytes) : Auth × St :=
  let b : Buf := { rest := data }
  let (b, rc) := b.get decU8 p.reasonCode
  let p := { p with reasonCode := rc }
  let (b, occs) := b.getAny table (lastBin p.binInit)
  (occs.foldl applyOcc p, b.st)

def view (p : Auth) : View :=
  [("AuthData", .s p.authData), ("AuthMethod", .s p.authMethod),
   ("ReasonCode", .n p.reasonCode.toNat), ("ReasonString", .s p.reasonString),
   ("UserProperties", .ups p.userProps)]
end Auth

/-! ## Undefined -/
structure Undefined where
  fixed : UInt8 := 0
  data : Bytes := []
deriving Repr, DecidableEq

namespace Undefined
/-- keeps a copy of the bytes it was given -/
def unmarshal (p : Undefined) (data : Bytes) : Undefined × St := ({ p with data := data }, .ok)
def view (p : Undefined) : View := [("Data", .s p.data)]
end Undefined

end Mq
