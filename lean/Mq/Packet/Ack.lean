import Mq.Packet.Common
/-!
# PUBACK, PUBREC, PUBREL, PUBCOMP (`puback.go`, `pubrec.go`, `pubrel.go`, `pubcomp.go`)

The four Go files are copies of one another up to the type name, the constructor's first byte
and the `String`/`dump` renderers; one model parameterised by `fixed`. The harness drives the
four Go types separately.
-/
namespace Mq

structure Ack where
  fixed : UInt8
  packetID : UInt16 := 0
  reasonCode : UInt8 := 0
  reason : Bytes := []
  userProps : UserProps := []
deriving Repr, DecidableEq

namespace Ack

def newPubAck : Ack := { fixed := 0x40 }
def newPubRec : Ack := { fixed := 0x50 }
def newPubRel : Ack := { fixed := 0x62 }
def newPubComp : Ack := { fixed := 0x70 }

def table : PropTable := [(0x1f, .bin)]

/-- `properties(b, i)` -/
def props (p : Ack) : Bytes := encPropOpt 0x1f (.bin p.reason) ++ encUserProps p.userProps

/-- `variableHeader(b, i)`: packet identifier; the reason code when it is non-zero or when
properties follow; property length and properties when there are any. -/
def body (p : Ack) : Bytes :=
  encU16 p.packetID
  ++ (if p.reasonCode ≠ 0 ∨ p.props ≠ [] then [p.reasonCode] else [])
  ++ (if p.props ≠ [] then encVb p.props.length ++ p.props else [])

def encode (p : Ack) : Bytes := frame p.fixed p.body

def applyOcc (p : Ack) (o : PropOcc) : Ack :=
  match o.val with
  | .bin v => if o.id = 0x1f then { p with reason := v } else p
  | .pair k v => if o.id = 0x26 then { p with userProps := p.userProps ++ [(k, v)] } else p
  | _ => p

/-- `UnmarshalBinary(data)` -/
def unmarshal (p : Ack) (data : Bytes) : Ack × St :=
  let b : Buf := { rest := data }
  let (b, pid) := b.get decU16 p.packetID
  let p := { p with packetID := pid }
  if data.length > 2 then
    let (b, rc) := b.get decU8 p.reasonCode
    let p := { p with reasonCode := rc }
    let (b, occs) := b.getAny table (lastBin fun _ => p.reason)
    (occs.foldl applyOcc p, b.st)
  else (p, b.st)

def view (p : Ack) : View :=
  [("PacketID", .n p.packetID.toNat), ("ReasonCode", .n p.reasonCode.toNat),
   ("ReasonString", .s p.reason), ("UserProperties", .ups p.userProps)]

end Ack
end Mq
