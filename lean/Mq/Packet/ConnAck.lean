import Mq.Packet.Common
/-!
# CONNACK (`connack.go`)
-/
namespace Mq

structure ConnAck where
  fixed : UInt8 := 0x20
  flags : UInt8 := 0
  reasonCode : UInt8 := 0
  sessionExpiryInterval : UInt32 := 0
  receiveMax : UInt16 := 0
  maxQoS : UInt8 := 0
  retainAvailable : Bool := false
  maxPacketSize : UInt32 := 0
  assignedClientID : Bytes := []
  topicAliasMax : UInt16 := 0
  reasonString : Bytes := []
  userProps : UserProps := []
  wildcardSubAvailable : Bool := false
  subIdentifiersAvailable : Bool := false
  sharedSubAvailable : Bool := false
  serverKeepAlive : UInt16 := 0
  responseInformation : Bytes := []
  serverReference : Bytes := []
  authMethod : Bytes := []
  authData : Bytes := []
deriving Repr, DecidableEq

namespace ConnAck
def new : ConnAck := {}

def sessionPresent (p : ConnAck) : Bool := has p.flags 1
def setSessionPresent (p : ConnAck) (v : Bool) : ConnAck := { p with flags := toggle p.flags 1 v }

def table : PropTable :=
  [(0x21, .u16), (0x11, .u32), (0x24, .u8), (0x25, .bool), (0x27, .u32), (0x12, .bin),
   (0x22, .u16), (0x1f, .bin), (0x28, .bool), (0x29, .bool), (0x2a, .bool), (0x13, .u16),
   (0x1a, .bin), (0x1c, .bin), (0x15, .bin), (0x16, .bin)]

def props (p : ConnAck) : Bytes :=
  encPropOpt 0x21 (.u16 p.receiveMax)
  ++ encPropOpt 0x11 (.u32 p.sessionExpiryInterval)
  ++ encPropOpt 0x24 (.u8 p.maxQoS)
  ++ encPropOpt 0x25 (.bool p.retainAvailable)
  ++ encPropOpt 0x27 (.u32 p.maxPacketSize)
  ++ encPropOpt 0x12 (.bin p.assignedClientID)
  ++ encPropOpt 0x22 (.u16 p.topicAliasMax)
  ++ encPropOpt 0x1f (.bin p.reasonString)
  ++ encPropOpt 0x28 (.bool p.wildcardSubAvailable)
  ++ encPropOpt 0x29 (.bool p.subIdentifiersAvailable)
  ++ encPropOpt 0x2a (.bool p.sharedSubAvailable)
  ++ encPropOpt 0x13 (.u16 p.serverKeepAlive)
  ++ encPropOpt 0x1a (.bin p.responseInformation)
  ++ encPropOpt 0x1c (.bin p.serverReference)
  ++ encPropOpt 0x15 (.bin p.authMethod)
  ++ encPropOpt 0x16 (.bin p.authData)
  ++ encUserProps p.userProps

def body (p : ConnAck) : Bytes :=
  [p.flags, p.reasonCode] ++ encVb p.props.length ++ p.props

def encode (p : ConnAck) : Bytes := frame p.fixed p.body

def applyOcc (p : ConnAck) (o : PropOcc) : ConnAck :=
  match o.val with
  | .u8 v => if o.id = 0x24 then { p with maxQoS := v } else p
  | .u16 v =>
    if o.id = 0x21 then { p with receiveMax := v }
    else if o.id = 0x22 then { p with topicAliasMax := v }
    else if o.id = 0x13 then { p with serverKeepAlive := v } else p
  | .u32 v =>
    if o.id = 0x11 then { p with sessionExpiryInterval := v }
    else if o.id = 0x27 then { p with maxPacketSize := v } else p
  | .bool v =>
    if o.id = 0x25 then { p with retainAvailable := v }
    else if o.id = 0x28 then { p with wildcardSubAvailable := v }
    else if o.id = 0x29 then { p with subIdentifiersAvailable := v }
    else if o.id = 0x2a then { p with sharedSubAvailable := v } else p
  | .bin v =>
    if o.id = 0x12 then { p with assignedClientID := v }
    else if o.id = 0x1f then { p with reasonString := v }
    else if o.id = 0x1a then { p with responseInformation := v }
    else if o.id = 0x1c then { p with serverReference := v }
    else if o.id = 0x15 then { p with authMethod := v }
    else if o.id = 0x16 then { p with authData := v } else p
  | .pair k v => if o.id = 0x26 then { p with userProps := p.userProps ++ [(k, v)] } else p
  | _ => p

def binInit (p : ConnAck) (id : UInt8) : Bytes :=
  if id = 0x12 then p.assignedClientID else if id = 0x1f then p.reasonString
  else if id = 0x1a then p.responseInformation else if id = 0x1c then p.serverReference
  else if id = 0x15 then p.authMethod else if id = 0x16 then p.authData else []

def unmarshal (p : ConnAck) (data : Bytes) : ConnAck × St :=
  let b : Buf := { rest := data }
  let (b, fl) := b.get decU8 p.flags
  let (b, rc) := b.get decU8 p.reasonCode
  let p := { p with flags := fl, reasonCode := rc }
  let (b, occs) := b.getAny table (lastBin p.binInit)
  (occs.foldl applyOcc p, b.st)

def view (p : ConnAck) : View :=
  [("AssignedClientID", .s p.assignedClientID), ("AuthData", .s p.authData),
   ("AuthMethod", .s p.authMethod), ("Flags", .n p.flags.toNat),
   ("MaxPacketSize", .n p.maxPacketSize.toNat), ("MaxQoS", .n p.maxQoS.toNat),
   ("ReasonCode", .n p.reasonCode.toNat), ("ReasonString", .s p.reasonString),
   ("ReceiveMax", .n p.receiveMax.toNat), ("ResponseInformation", .s p.responseInformation),
   ("RetainAvailable", .b p.retainAvailable), ("ServerKeepAlive", .n p.serverKeepAlive.toNat),
   ("ServerReference", .s p.serverReference),
   ("SessionExpiryInterval", .n p.sessionExpiryInterval.toNat),
   ("SessionPresent", .b p.sessionPresent), ("SharedSubAvailable", .b p.sharedSubAvailable),
   ("SubIdentifiersAvailable", .b p.subIdentifiersAvailable),
   ("TopicAliasMax", .n p.topicAliasMax.toNat), ("UserProperties", .ups p.userProps),
   ("WildcardSubAvailable", .b p.wildcardSubAvailable)]
end ConnAck
end Mq
