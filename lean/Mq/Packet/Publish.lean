import Mq.Packet.Common
/-!
# PUBLISH (`publish.go`)
-/
namespace Mq

structure Publish where
  fixed : UInt8 := 0x30
  packetID : UInt16 := 0
  topicAlias : UInt16 := 0
  payloadFormat : Bool := false
  messageExpiryInterval : UInt32 := 0
  topicName : Bytes := []
  responseTopic : Bytes := []
  correlationData : Bytes := []
  contentType : Bytes := []
  payload : Bytes := []
  userProps : UserProps := []
  subscriptionIDs : List UInt32 := []
deriving Repr, DecidableEq

namespace Publish
def new : Publish := {}

def duplicate (p : Publish) : Bool := has p.fixed 8
def retain (p : Publish) : Bool := has p.fixed 1

/-- `QoS()`: `switch { case Has(QoS3): 3; case Has(QoS1): 1; case Has(QoS2): 2 }; 0` -/
def qos (p : Publish) : UInt8 :=
  if has p.fixed 6 then 3 else if has p.fixed 2 then 1 else if has p.fixed 4 then 2 else 0

def setDuplicate (p : Publish) (v : Bool) : Publish := { p with fixed := toggle p.fixed 8 v }
def setRetain (p : Publish) (v : Bool) : Publish := { p with fixed := toggle p.fixed 1 v }

/-- `SetQoS`: clear both bits, then set for 1, 2, 3; any other value leaves them clear -/
def setQoS (p : Publish) (v : UInt8) : Publish :=
  let f := p.fixed &&& ~~~(6 : UInt8)
  { p with fixed := if v = 1 then f ||| 2 else if v = 2 then f ||| 4 else if v = 3 then f ||| 6 else f }

def table : PropTable :=
  [(0x01, .bool), (0x02, .u32), (0x23, .u16), (0x08, .bin), (0x09, .bin), (0x03, .bin)]

def props (p : Publish) : Bytes :=
  encPropOpt 0x01 (.bool p.payloadFormat)
  ++ encPropOpt 0x02 (.u32 p.messageExpiryInterval)
  ++ encPropOpt 0x23 (.u16 p.topicAlias)
  ++ encPropOpt 0x08 (.bin p.responseTopic)
  ++ encPropOpt 0x09 (.bin p.correlationData)
  ++ encPropOpt 0x03 (.bin p.contentType)
  ++ encUserProps p.userProps
  ++ p.subscriptionIDs.flatMap fun v => encPropOpt 0x0b (.vb v.toNat)

def hasPacketID (p : Publish) : Bool := p.qos == 1 || p.qos == 2

def varHeader (p : Publish) : Bytes :=
  encBin p.topicName
  ++ (if p.hasPacketID then encU16 p.packetID else [])
  ++ encVb p.props.length ++ p.props

def body (p : Publish) : Bytes := p.varHeader ++ p.payload

def encode (p : Publish) : Bytes := frame p.fixed p.body

def applyOcc (p : Publish) (o : PropOcc) : Publish :=
  match o.val with
  | .bool v => if o.id = 0x01 then { p with payloadFormat := v } else p
  | .u32 v => if o.id = 0x02 then { p with messageExpiryInterval := v } else p
  | .u16 v => if o.id = 0x23 then { p with topicAlias := v } else p
  | .bin v =>
    if o.id = 0x08 then { p with responseTopic := v }
    else if o.id = 0x09 then { p with correlationData := v }
    else if o.id = 0x03 then { p with contentType := v } else p
  | .pair k v => if o.id = 0x26 then { p with userProps := p.userProps ++ [(k, v)] } else p
  | .vb n => if o.id = 0x0b then { p with subscriptionIDs := p.subscriptionIDs ++ [UInt32.ofNat n] } else p
  | _ => p

def binInit (p : Publish) (id : UInt8) : Bytes :=
  if id = 0x08 then p.responseTopic else if id = 0x09 then p.correlationData
  else if id = 0x03 then p.contentType else []

/-! `UnmarshalBinary` in three stages, each a run of statements of the Go function acting on
the cursor and the packet. -/

/-- `get(&p.topicName); if v := p.QoS(); v == 1 || v == 2 { get(&p.packetID) }` -/
def readHead (p : Publish) (b : Buf) : Buf × Publish :=
  let r1 := b.get (decBin p.topicName) p.topicName
  let p := { p with topicName := r1.2 }
  if p.hasPacketID then
    let r2 := r1.1.get decU16 p.packetID
    (r2.1, { p with packetID := r2.2 })
  else (r1.1, p)

/-- `buf.getAny(p.propertyMap(), p.appendUserProperty)` -/
def readProps (p : Publish) (b : Buf) : Buf × Publish :=
  let r := b.getAny table (lastBin p.binInit)
  (r.1, r.2.foldl applyOcc p)

/-- `if len(data) > buf.i { get(&p.payload) }` -/
def readPayload (p : Publish) (b : Buf) : Buf × Publish :=
  if b.rest ≠ [] then
    let r := b.get decRaw p.payload
    (r.1, { p with payload := r.2 })
  else (b, p)

def unmarshal (p : Publish) (data : Bytes) : Publish × St :=
  let s1 := p.readHead { rest := data }
  let s2 := s1.2.readProps s1.1
  let s3 := s2.2.readPayload s2.1
  (s3.2, s3.1.st)

def view (p : Publish) : View :=
  [("ContentType", .s p.contentType), ("CorrelationData", .s p.correlationData),
   ("Duplicate", .b p.duplicate), ("MessageExpiryInterval", .n p.messageExpiryInterval.toNat),
   ("PacketID", .n p.packetID.toNat), ("Payload", .s p.payload),
   ("PayloadFormat", .b p.payloadFormat), ("QoS", .n p.qos.toNat),
   ("ResponseTopic", .s p.responseTopic), ("Retain", .b p.retain),
   ("SubscriptionIDs", .nats (p.subscriptionIDs.map UInt32.toNat)),
   ("TopicAlias", .n p.topicAlias.toNat), ("TopicName", .s p.topicName),
   ("UserProperties", .ups p.userProps)]
end Publish
end Mq
