import Mq.Packet.Publish
/-!
# CONNECT (`connect.go`)
-/
namespace Mq

structure Connect where
  fixed : UInt8 := 0x10
  flags : UInt8 := 0
  protocolVersion : UInt8 := 0
  keepAlive : UInt16 := 0
  receiveMax : UInt16 := 0
  sessionExpiryInterval : UInt32 := 0
  maxPacketSize : UInt32 := 0
  willDelayInterval : UInt32 := 0
  topicAliasMax : UInt16 := 0
  requestResponseInfo : Bool := false
  requestProblemInfo : Bool := false
  protocolName : Bytes := []
  clientID : Bytes := []
  userProps : UserProps := []
  authMethod : Bytes := []
  authData : Bytes := []
  username : Bytes := []
  password : Bytes := []
  /-- Go `*Publish`: `none` is nil -/
  will : Option Publish := none
  willPayload : Bytes := []
deriving Repr, DecidableEq

namespace Connect

/-- CONNECT flag bits -/
def fReserved : UInt8 := 1
def fCleanStart : UInt8 := 2
def fWillFlag : UInt8 := 4
def fWillQoS1 : UInt8 := 8
def fWillQoS2 : UInt8 := 16
def fWillRetain : UInt8 := 32
def fPassword : UInt8 := 64
def fUsername : UInt8 := 128

def mqtt5 : Bytes := [0x4d, 0x51, 0x54, 0x54]

/-- `NewConnect()` -/
def new : Connect := { protocolName := mqtt5, protocolVersion := 5 }

def setCleanStart (p : Connect) (v : Bool) : Connect := { p with flags := toggle p.flags fCleanStart v }

/-- `setWillQoS`: `p.flags &= ^(WillQoS2|WillQoS1); p.flags.toggle(v<<3, v < 3)` -/
def setWillQoS (p : Connect) (v : UInt8) : Connect :=
  let f := p.flags &&& ~~~(fWillQoS2 ||| fWillQoS1)
  { p with flags := toggle f (v <<< 3) (v < 3) }

def willQoS (p : Connect) : UInt8 := (p.flags &&& (fWillQoS2 ||| fWillQoS1)) >>> 3

/-- `SetWill(will)` (with a non-nil argument) -/
def setWill (p : Connect) (w : Publish) : Connect :=
  let f := toggle (toggle p.flags fWillFlag true) fWillRetain w.retain
  setWillQoS { p with will := some w, flags := f, willPayload := w.payload } w.qos

def setUsername (p : Connect) (v : Bytes) : Connect :=
  { p with username := v, flags := toggle p.flags fUsername (v.length > 0) }

def setPassword (p : Connect) (v : Bytes) : Connect :=
  { p with password := v, flags := toggle p.flags fPassword (v.length > 0) }

def table : PropTable :=
  [(0x21, .u16), (0x11, .u32), (0x27, .u32), (0x22, .u16), (0x19, .bool), (0x17, .bool),
   (0x15, .bin), (0x16, .bin)]

def willTable : PropTable :=
  [(0x18, .u32), (0x01, .bool), (0x02, .u32), (0x03, .bin), (0x08, .bin), (0x09, .bin)]

def props (p : Connect) : Bytes :=
  encPropOpt 0x21 (.u16 p.receiveMax)
  ++ encPropOpt 0x11 (.u32 p.sessionExpiryInterval)
  ++ encPropOpt 0x27 (.u32 p.maxPacketSize)
  ++ encPropOpt 0x22 (.u16 p.topicAliasMax)
  ++ encPropOpt 0x19 (.bool p.requestResponseInfo)
  ++ encPropOpt 0x17 (.bool p.requestProblemInfo)
  ++ encPropOpt 0x15 (.bin p.authMethod)
  ++ encPropOpt 0x16 (.bin p.authData)
  ++ encUserProps p.userProps

def varHeader (p : Connect) : Bytes :=
  encBin p.protocolName ++ [p.protocolVersion, p.flags] ++ encU16 p.keepAlive
  ++ encVb p.props.length ++ p.props

/-- the will properties in the fixed order of the encoder -/
def willProps (p : Connect) (w : Publish) : Bytes :=
  encPropOpt 0x18 (.u32 p.willDelayInterval)
  ++ encPropOpt 0x01 (.bool w.payloadFormat)
  ++ encPropOpt 0x02 (.u32 w.messageExpiryInterval)
  ++ encPropOpt 0x03 (.bin w.contentType)
  ++ encPropOpt 0x08 (.bin w.responseTopic)
  ++ encPropOpt 0x09 (.bin w.correlationData)
  ++ encUserProps w.userProps

/-- `payload(b, i)`. `none` = nil-pointer dereference (`p.will.…` with the will flag set and no
will attached) — a run-time panic in Go. -/
def payload? (p : Connect) : Option Bytes :=
  let willPart : Option Bytes :=
    if has p.flags fWillFlag then
      match p.will with
      | some w => some (encVb (p.willProps w).length ++ p.willProps w ++ encBin w.topicName ++ encBin p.willPayload)
      | none => none
    else some []
  willPart.map fun wp =>
    encBin p.clientID ++ wp
    ++ (if has p.flags fUsername then encBin p.username else [])
    ++ (if has p.flags fPassword then encBin p.password else [])

def body? (p : Connect) : Option Bytes := p.payload?.map fun pl => p.varHeader ++ pl

/-- `none` = Go panics (see `payload?`) -/
def encode? (p : Connect) : Option Bytes := p.body?.map fun b => frame p.fixed b

def applyOcc (p : Connect) (o : PropOcc) : Connect :=
  match o.val with
  | .u16 v =>
    if o.id = 0x21 then { p with receiveMax := v }
    else if o.id = 0x22 then { p with topicAliasMax := v } else p
  | .u32 v =>
    if o.id = 0x11 then { p with sessionExpiryInterval := v }
    else if o.id = 0x27 then { p with maxPacketSize := v } else p
  | .bool v =>
    if o.id = 0x19 then { p with requestResponseInfo := v }
    else if o.id = 0x17 then { p with requestProblemInfo := v } else p
  | .bin v =>
    if o.id = 0x15 then { p with authMethod := v }
    else if o.id = 0x16 then { p with authData := v } else p
  | .pair k v => if o.id = 0x26 then { p with userProps := p.userProps ++ [(k, v)] } else p
  | _ => p

def binInit (p : Connect) (id : UInt8) : Bytes :=
  if id = 0x15 then p.authMethod else if id = 0x16 then p.authData else []

/-- a will property occurrence applied to (will delay interval, will message) -/
def applyWillOcc (s : UInt32 × Publish) (o : PropOcc) : UInt32 × Publish :=
  match o.val with
  | .u32 v =>
    if o.id = 0x18 then (v, s.2)
    else if o.id = 0x02 then (s.1, { s.2 with messageExpiryInterval := v }) else s
  | .bool v => if o.id = 0x01 then (s.1, { s.2 with payloadFormat := v }) else s
  | .bin v =>
    if o.id = 0x03 then (s.1, { s.2 with contentType := v })
    else if o.id = 0x08 then (s.1, { s.2 with responseTopic := v })
    else if o.id = 0x09 then (s.1, { s.2 with correlationData := v }) else s
  | .pair k v => if o.id = 0x26 then (s.1, { s.2 with userProps := s.2.userProps ++ [(k, v)] }) else s
  | _ => s

/-! `UnmarshalBinary` in stages, each a run of statements of the Go function acting on the
cursor and the packet. -/

/-- `get(&p.protocolName); get(&p.protocolVersion); get(&p.flags); get(&p.keepAlive)` -/
def readHead (p : Connect) (b : Buf) : Buf × Connect :=
  let r1 := b.get (decBin p.protocolName) p.protocolName
  let r2 := r1.1.get decU8 p.protocolVersion
  let r3 := r2.1.get decU8 p.flags
  let r4 := r3.1.get decU16 p.keepAlive
  (r4.1, { p with protocolName := r1.2, protocolVersion := r2.2, flags := r3.2, keepAlive := r4.2 })

/-- `buf.getAny(p.propertyMap(), p.appendUserProperty)` -/
def readProps (p : Connect) (b : Buf) : Buf × Connect :=
  let r := b.getAny table (lastBin p.binInit)
  (r.1, r.2.foldl applyOcc p)

/-- `get(&p.clientID)` -/
def readClientID (p : Connect) (b : Buf) : Buf × Connect :=
  let r := b.get (decBin p.clientID) p.clientID
  (r.1, { p with clientID := r.2 })

/-- the will section: `p.will = NewPublish(); SetQoS; SetRetain; getAny(willPropertyMap);
get(&p.will.topicName); get(&p.willPayload); p.will.payload = p.willPayload` -/
def readWill (p : Connect) (b : Buf) : Buf × Connect :=
  if has p.flags fWillFlag then
    let w := (Publish.new.setQoS p.willQoS).setRetain (has p.flags fWillRetain)
    let r1 := b.getAny willTable (lastBin fun _ => [])
    let s := r1.2.foldl applyWillOcc (p.willDelayInterval, w)
    let r2 := r1.1.get (decBin []) []
    let r3 := r2.1.get (decBin p.willPayload) p.willPayload
    (r3.1, { p with willDelayInterval := s.1, willPayload := r3.2,
                    will := some { s.2 with topicName := r2.2, payload := r3.2 } })
  else (b, p)

/-- `if p.flags.Has(UsernameFlag) { get(&p.username) }` -/
def readUsername (p : Connect) (b : Buf) : Buf × Connect :=
  if has p.flags fUsername then
    let r := b.get (decBin p.username) p.username
    (r.1, { p with username := r.2 })
  else (b, p)

/-- `if p.flags.Has(PasswordFlag) { get(&p.password) }` -/
def readPassword (p : Connect) (b : Buf) : Buf × Connect :=
  if has p.flags fPassword then
    let r := b.get (decBin p.password) p.password
    (r.1, { p with password := r.2 })
  else (b, p)

def unmarshal (p : Connect) (data : Bytes) : Connect × St :=
  let s1 := p.readHead { rest := data }
  let s2 := s1.2.readProps s1.1
  let s3 := s2.2.readClientID s2.1
  let s4 := s3.2.readWill s3.1
  let s5 := s4.2.readUsername s4.1
  let s6 := s5.2.readPassword s5.1
  (s6.2, s6.1.st)

def view (p : Connect) : View :=
  [("AuthData", .s p.authData), ("AuthMethod", .s p.authMethod),
   ("CleanStart", .b (has p.flags fCleanStart)), ("ClientID", .s p.clientID),
   ("Flags", .n p.flags.toNat), ("KeepAlive", .n p.keepAlive.toNat),
   ("MaxPacketSize", .n p.maxPacketSize.toNat), ("Password", .s p.password),
   ("ProtocolName", .s p.protocolName), ("ProtocolVersion", .n p.protocolVersion.toNat),
   ("ReceiveMax", .n p.receiveMax.toNat), ("RequestProblemInfo", .b p.requestProblemInfo),
   ("RequestResponseInfo", .b p.requestResponseInfo),
   ("SessionExpiryInterval", .n p.sessionExpiryInterval.toNat),
   ("TopicAliasMax", .n p.topicAliasMax.toNat), ("UserProperties", .ups p.userProps),
   ("Username", .s p.username), ("Will", .b p.will.isSome),
   ("WillDelayInterval", .n p.willDelayInterval.toNat)]
  ++ (match p.will with
      | some w => w.view.map fun kv => ("Will." ++ kv.1, kv.2)
      | none => [])
end Connect
end Mq
