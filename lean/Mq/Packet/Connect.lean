import Mq.Packet.Publish
/-!
# CONNECT (`connect.go`)
-/
namespace Mq

structure Connect where
  fixed : UInt8 := 0x10
  flags : UInt8 := 0
  protocolVersion : UInt8 := 0
  keepAlive : UInt16 := 0
  receiveMax : UInt16 := 0
  sessionExpiryInterval : UInt32 := 0
  maxPacketSize : UInt32 := 0
  willDelayInterval : UInt32 := 0
  topicAliasMax : UInt16 := 0
  requestResponseInfo : Bool := false
  requestProblemInfo : Bool := false
  protocolName : Bytes := []
  clientID : Bytes := []
  userProps : UserProps := []
  authMethod : Bytes := []
  authData : Bytes := []
  username : Bytes := []
  password : Bytes := []
  /-- Go `*Publish`: `none` is nil -/
  will : Option Publish := none
  willPayload : Bytes := []
deriving Repr, DecidableEq

namespace Connect

/-- CONNECT flag bits -/
def fReserved : UInt8 := 1
def fCleanStart : UInt8 := 2
def fWillFlag : UInt8 := 4
def fWillQoS1 : UInt8 := 8
def fWillQoS2 : UInt8 := 16
def fWillRetain : UInt8 := 32
def fPassword : UInt8 := 64
def fUsername : UInt8 := 128

def mqtt5 : Bytes := [0x4d, 0x51, 0x54, 0x54]

/-- `NewConnect()` -/
def new : Connect := { protocolName := mqtt5, protocolVersion := 5 }

def setCleanStart (p : Connect) (v : Bool) : Connect := { p with flags := toggle p.flags fCleanStart v }

/-- `setWillQoS`: `p.flags &= ^(WillQoS2|WillQoS1); p.flags.toggle(v<<3, v < 3)` -/
def setWillQoS (p : Connect) (v : UInt8) : Connect :=
  let f := p.flags &&& ~~~(fWillQoS2 ||| fWillQoS1)
  { p with flags := toggle f (v <<< 3) (v < 3) }

def willQoS (p : Connect) : UInt8 := (p.flags &&& (fWillQoS2 ||| fWillQoS1)) >>> 3

/-- `SetWill(will)` (with a non-nil argument) -/
def setWill (p : Connect) (w : Publish) : Connect :=
  let f := toggle (toggle p.flags fWillFlag true) fWillRetain w.retain
  setWillQoS { p with will := some w, flags := f, willPayload := w.payload } w.qos

def setUsername (p : Connect) (v : Bytes) : Connect :=
  { p with username := v, flags := toggle p.flags fUsername (v.length > 0) }

def setPassword (p : Connect) (v : Bytes) : Connect :=
  { p with password := v, flags := toggle p.flags fPassword (v.length > 0) }

def table : PropTable :=
  [(0x21, .u16), (0x11, .u32), (0x27, .u32), (0x22, .u16), (0x19, .bool), (0x17, .bool),
   (0x15, .bin), (0x16, .bin)]

def willTable : PropTable :=
  [(0x18, .u32), (0x01, .bool), (0x02, .u32), (0x03, .bin), (0x08, .bin), (0x09, .bin)]

def props (p : Connect) : Bytes :=
  encPropOpt 0x21 (.u16 p.receiveMax)
  ++ encPropOpt 0x11 (.u32 p.sessionExpiryInterval)
  ++ encPropOpt 0x27 (.u32 p.maxPacketSize)
  ++ encPropOpt 0x22 (.u16 p.topicAliasMax)
  ++ encPropOpt 0x19 (.bool p.requestResponseInfo)
  ++ encPropOpt 0x17 (.bool p.requestProblemInfo)
  ++ encPropOpt 0x15 (.bin p.authMethod)
  ++ encPropOpt 0x16 (.bin p.authData)
  ++ encUserProps p.userProps

def varHeader (p : Connect) : Bytes :=
  encBin p.protocolName ++ [p.protocolVersion, p.flags] ++ encU16 p.keepAlive
  ++ encVb p.props.length ++ p.props

/-- the will properties in the fixed order of the encoder -/
def willProps (p : Connect) (w : Publish) : Bytes :=
  encPropOpt 0x18 (.u32 p.willDelayInterval)
  ++ encPropOpt 0x01 (.bool w.payloadFormat)
  ++ encPropOpt 0x02 (.u32 w.messageExpiryInterval)
  ++ encPropOpt 0x03 (.bin w.contentType)
  ++ encPropOpt 0x08 (.bin w.responseTopic)
  ++ encPropOpt 0x09 (.bin w.correlationData)
  ++ encUserProps w.userProps

/-- `payload(b, i)`. `none` = nil-pointer dereference (`p.will.…` with the will flag set and no
will attached) — a run-time panic in Go. -/
def payload? (p : Connect) : Option Bytes :=
  let willPart : Option Bytes :=
    if has p.flags fWillFlag then
      match p.will with
      | some w => some (encVb (p.willProps w).length ++ p.willProps w ++ encBin w.topicName ++ encBin p.willPayload)
      | none => none
    else some []
  willPart.map fun wp =>
    encBin p.clientID ++ wp
    ++ (if has p.flags fUsername then encBin p.username else [])
    ++ (if has p.flags fPassword then encBin p.password else [])

def body? (p : Connect) : Option Bytes := p.payload?.map fun pl => p.varHeader ++ pl

/-- `none` = Go panics (see `payload?`) -/
def encode? (p : Connect) : Option Bytes := p.body?.map fun b => frame p.fixed b

def applyOcc (p : Connect) (o : PropOcc) : Connect :=
  match o.val with
  | .u16 v =>
    if o.id = 0x21 then { p with receiveMax := v }
    else if o.id = 0x22 then { p with topicAliasMax := v } else p
  | .u32 v =>
    if o.id = 0x11 then { p with sessionExpiryInterval := v }
    else if o.id = 0x27 then { p with maxPacketSize := v } else p
  | .bool v =>
    if o.id = 0x19 then { p with requestResponseInfo := v }
    else if o.id = 0x17 then { p with requestProblemInfo := v } else p
  | .bin v =>
    if o.id = 0x15 then { p with authMethod := v }
    else if o.id = 0x16 then { p with authData := v } else p
  | .pair k v => if o.id = 0x26 then { p with userProps := p.userProps ++ [(k, v)] } else p
  | _ => p

def binInit (p : Connect) (id : UInt8) : Bytes :=
  if id = 0x15 then p.authMethod else if id = 0x16 then p.authData else []

/-- a will property occurrence applied to (will delay interval, will message) -/
def applyWillOcc (s : UInt32 × Publish) (o : PropOcc) : UInt32 × Publish :=
  match o.val with
  | .u32 v =>
    if o.id = 0x18 then (v, s.2)
    else if o.id = 0x02 then (s.1, { s.2 with messageExpiryInterval := v }) else s
  | .bool v => if o.id = 0x01 then (s.1, { s.2 with payloadFormat := v }) else s
  | .bin v =>
    if o.id = 0x03 then (s.1, { s.2 with contentType := v })
    else if o.id = 0x08 then (s.1, { s.2 with responseTopic := v })
    else if o.id = 0x09 then (s.1, { s.2 with correlationData := v }) else s
  | .pair k v => if o.id = 0x26 then (s.1, { s.2 with userProps := s.2.userProps ++ [(k, v)] }) else s
  | _ => s

def unmarshal (p : Connect) (data : Bytes) : Connect × St :=
  let b : Buf := { rest := data }
  let (b, pn) := b.get (decBin p.protocolName) p.protocolName
  let (b, pv) := b.get decU8 p.protocolVersion
  let (b, fl) := b.get decU8 p.flags
  let (b, ka) := b.get decU16 p.keepAlive
  let p := { p with protocolName := pn, protocolVersion := pv, flags := fl, keepAlive := ka }
  let (b, occs) := b.getAny table (lastBin p.binInit)
  let p := occs.foldl applyOcc p
  let (b, cid) := b.get (decBin p.clientID) p.clientID
  let p := { p with clientID := cid }
  let (b, p) :=
    if has p.flags fWillFlag then
      -- p.will = NewPublish(); SetQoS(willQoS()); SetRetain(flags.Has(WillRetain))
      let w := (Publish.new.setQoS p.willQoS).setRetain (has p.flags fWillRetain)
      let (b, woccs) := b.getAny willTable (lastBin fun _ => [])
      let (wdi, w) := woccs.foldl applyWillOcc (p.willDelayInterval, w)
      let (b, topic) := b.get (decBin []) []
      let (b, wp) := b.get (decBin p.willPayload) p.willPayload
      (b, { p with willDelayInterval := wdi, willPayload := wp,
                   will := some { w with topicName := topic, payload := wp } })
    else (b, p)
  let (b, p) :=
    if has p.flags fUsername then
      let (b, u) := b.get (decBin p.username) p.username
      (b, { p with username := u })
    else (b, p)
  let (b, p) :=
    if has p.flags fPassword then
      let (b, pw) := b.get (decBin p.password) p.password
      (b, { p with password := pw })
    else (b, p)
  (p, b.st)

def view (p : Connect) : View :=
  [("AuthData", .s p.authData), ("AuthMethod", .s p.authMethod),
   ("CleanStart", .b (has p.flags fCleanStart)), ("ClientID", .s p.clientID),
   ("Flags", .n p.flags.toNat), ("KeepAlive", .n p.keepAlive.toNat),
   ("MaxPacketSize", .n p.maxPacketSize.toNat), ("Password", .s p.password),
   ("ProtocolName", .s p.protocolName), ("ProtocolVersion", .n p.protocolVersion.toNat),
   ("ReceiveMax", .n p.receiveMax.toNat), ("RequestProblemInfo", .b p.requestProblemInfo),
   ("RequestResponseInfo", .b p.requestResponseInfo),
   ("SessionExpiryInterval", .n p.sessionExpiryInterval.toNat),
   ("TopicAliasMax", .n p.topicAliasMax.toNat), ("UserProperties", .ups p.userProps),
   ("Username", .s p.username), ("Will", .b p.will.isSome),
   ("WillDelayInterval", .n p.willDelayInterval.toNat)]
  ++ (match p.will with
      | some w => w.view.map fun kv => ("Will." ++ kv.1, kv.2)
      | none => [])
end Connect
end Mq
