import Mq.Packet
/-!
# Mq.Stage — the statements of an `UnmarshalBinary` body as combinators

The source translator (extract/decgen.go) renders every packet type's `UnmarshalBinary` as a list
of stages over the pair (cursor, packet): `get(&p.f)`, `buf.getAny(p.propertyMap(), p.append…)`,
`if <cond> { … }`, and three recognised idioms (the CONNECT will block, the SUBSCRIBE/UNSUBSCRIBE
filter loop, the SUBACK/UNSUBACK reason-code loop). `Proofs/Tie/Dec.lean` proves the translations
equal to the hand-written decoders of `Mq/Packet/*.lean`.
-/
namespace Mq

/-- one statement: cursor and packet before ↦ after -/
abbrev Stage (α : Type) := Buf × α → Buf × α

namespace Stage

/-- `get(&p.f)`: `dec` may depend on the packet (a string destination keeps its old content on a
zero-length string), `rd` reads the destination, `wr` stores into it -/
def get {α β : Type} (dec : α → Dec β) (rd : α → β) (wr : α → β → α) : Stage α := fun s =>
  let r := s.1.get (dec s.2) (rd s.2)
  (r.1, wr s.2 r.2)

/-- `buf.getAny(p.propertyMap(), p.appendUserProperty)`: the property map as (table of wire types,
old content of its string destinations, effect of one decoded occurrence) -/
def props {α : Type} (tbl : PropTable) (oldOf : α → UInt8 → List PropOcc → Bytes) (apply : α → PropOcc → α) :
    Stage α := fun s =>
  let r := s.1.getAny tbl (oldOf s.2)
  (r.1, r.2.foldl apply s.2)

/-- `stage₁; stage₂; …` -/
def seq {α : Type} (stages : List (Stage α)) : Stage α := fun s => stages.foldl (fun s f => f s) s

/-- `if c { … }` -/
def when {α : Type} (c : Buf × α → Prop) [∀ s, Decidable (c s)] (body : List (Stage α)) : Stage α := fun s =>
  if c s then seq body s else s

/-- `b := &buffer{data: data}; …; return b.err` -/
def run {α : Type} (stages : List (Stage α)) (p : α) (data : Bytes) : α × St :=
  let s := seq stages ({ rest := data }, p)
  (s.2, s.1.st)

/-- plain assignments to the packet that do not involve the cursor -/
def pureSet {α : Type} (f : α → α) : Stage α := fun s => (s.1, f s.2)

/-- placeholder for a statement the translator does not understand: compiles, fails the tie -/
def unknown {α : Type} (_src : String) : Stage α := fun s => ({ s.1 with st := .hang }, s.2)

end Stage

/-! ## recognised idioms -/

/-- the CONNECT will block:
`p.will = NewPublish(); p.will.SetQoS(p.willQoS()); p.will.SetRetain(p.flags.Has(WillRetain));
buf.getAny(p.willPropertyMap(), p.appendWillProperty); get(&p.will.topicName); get(&p.willPayload);
p.will.payload = rawdata(p.willPayload)` — parametrised by the translated will property map -/
def Connect.willBlock (tbl : PropTable) (apply : UInt32 × Publish → PropOcc → UInt32 × Publish) : Stage Connect := fun s =>
  let p := s.2
  let w := (Publish.new.setQoS p.willQoS).setRetain (has p.flags Connect.fWillRetain)
  let r1 := s.1.getAny tbl (lastBin fun _ => [])
  let t := r1.2.foldl apply (p.willDelayInterval, w)
  let r2 := r1.1.get (decBin []) []
  let r3 := r2.1.get (decBin p.willPayload) p.willPayload
  (r3.1, { p with willDelayInterval := t.1, willPayload := r3.2,
                  will := some { t.2 with topicName := r2.2, payload := r3.2 } })

/-- SUBSCRIBE: `for { var f TopicFilter; get(&f.filter); get(&f.options); p.filters = append(p.filters, f);
if b.err != nil || b.i == len(data) { break } }` -/
def Subscribe.filterStage (data : Bytes) : Stage Subscribe := fun s =>
  let r := Subscribe.filterLoop (data.length + 1) s.1 s.2.filters
  (r.1, { s.2 with filters := r.2 })

/-- UNSUBSCRIBE: the same loop over plain strings -/
def Unsubscribe.filterStage (data : Bytes) : Stage Unsubscribe := fun s =>
  let r := Unsubscribe.filterLoop (data.length + 1) s.1 s.2.filters
  (r.1, { s.2 with filters := r.2 })

/-- SUBACK/UNSUBACK: `p.reasonCodes = make([]uint8, len(data)-b.i); for i := range p.reasonCodes { var v wuint8;
b.get(&v); p.reasonCodes[i] = uint8(v) }` -/
def SubAck.codesStage : Stage SubAck := fun s =>
  (s.1, { s.2 with reasonCodes := if s.1.st = .ok then s.1.rest else List.replicate s.1.rest.length 0 })

end Mq
