/-!
# Mq.Basic — bytes, errors, decoder results

Core-only (no Mathlib): this file is linked into the `driver` executable.
-/
namespace Mq

abbrev Bytes := List UInt8

/-- What an `io.Reader` can fail with. `custom n` is an arbitrary sentinel error value. -/
inductive IOErr
  | eof
  | unexpectedEOF
  | custom (tag : Nat)
deriving Repr, DecidableEq, Inhabited

/-- Go `error` values of the library, as a small tree. Texts are never modelled. -/
inductive Err
  | missing                 -- "missing data" (ErrMissingData / *Malformed)
  | sizeExceeded            -- vbint "size exceeded"
  | badBool                 -- "malformed bool"
  | unknownProp (id : UInt8)
  | cannotWrite             -- Undefined.WriteTo
  | io (e : IOErr)          -- error coming from the reader, wrapped with %w
deriving Repr, DecidableEq, Inhabited

/-- `errors.Is(err, target)` over the `%w` chains ReadPacket builds. -/
def Err.is : Err → IOErr → Bool
  | .io e, t => e == t
  | _, _ => false

/-- Status of the decoder's cursor. `err` is Go's sticky `buffer.err`; `panic` and `hang` are
the two abnormal outcomes (a run-time panic inside a wire decoder; a loop that ran out of the
fuel that provably suffices for every terminating execution). A panic aborts the Go call;
because every later `get` is a no-op once the status is not `ok`, carrying it as a sticky
status is observationally the same. -/
inductive St
  | ok
  | err (e : Err)
  | panic
  | hang
deriving Repr, DecidableEq, Inhabited

/-- Result of one wire decoder (`UnmarshalBinary` followed by `width()`). -/
inductive DecRes (α : Type)
  | ok (v : α) (w : Nat)    -- value and the width Go recomputes from the value
  | err (e : Err)
  | panic
deriving Repr, DecidableEq

abbrev Dec (α : Type) := Bytes → DecRes α

def DecRes.map {α β} (f : α → β) : DecRes α → DecRes β
  | .ok v w => .ok (f v) w
  | .err e => .err e
  | .panic => .panic

/-! ## hex -/

def hexDigit (n : Nat) : Char :=
  if n < 10 then Char.ofNat (48 + n) else Char.ofNat (87 + n)

def hexOfBytes (bs : Bytes) : String :=
  String.ofList (bs.flatMap fun b => [hexDigit (b.toNat / 16), hexDigit (b.toNat % 16)])

def hexVal (c : Char) : Option Nat :=
  if '0' ≤ c ∧ c ≤ '9' then some (c.toNat - 48)
  else if 'a' ≤ c ∧ c ≤ 'f' then some (c.toNat - 87)
  else if 'A' ≤ c ∧ c ≤ 'F' then some (c.toNat - 55)
  else none

def bytesOfHexAux : List Char → Bytes → Option Bytes
  | [], acc => some acc.reverse
  | [_], _ => none
  | a :: b :: rest, acc =>
    match hexVal a, hexVal b with
    | some x, some y => bytesOfHexAux rest (UInt8.ofNat (x * 16 + y) :: acc)
    | _, _ => none

/-- `-` denotes the empty byte string. -/
def bytesOfHex (s : String) : Option Bytes :=
  if s = "-" then some [] else bytesOfHexAux s.toList []

def strBytes (s : String) : Bytes := s.toUTF8.toList

open Lean in
/-- `b!"text"`: the UTF-8 bytes of a string literal as an explicit list literal (so that the
kernel can compute with renderings; `strBytes` goes through `String`'s byte array) -/
macro:max "b!" s:str : term => do
  let bytes := s.getString.toUTF8.toList
  let elems ← bytes.mapM fun b => `(($(quote b.toNat) : UInt8))
  `(([$(elems.toArray),*] : List UInt8))

/-- decimal digits of a natural number (`strconv.Itoa`), by structural recursion on fuel -/
def decDigitsAux : Nat → Nat → Bytes → Bytes
  | 0, _, acc => acc
  | fuel + 1, n, acc =>
    let acc' := (48 + n % 10).toUInt8 :: acc
    if n < 10 then acc' else decDigitsAux fuel (n / 10) acc'

def decStr (n : Nat) : Bytes := decDigitsAux (n + 1) n []

end Mq
