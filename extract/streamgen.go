// streamgen — renders the stream side of decoding (`ReadPacket`, `fixedHeader.ReadFrom`, the tail of
// `fixedHeader.ReadRemaining`, `bits.ReadFrom`, `vbint.ReadFrom`) into Lean over the model's scripted reader:
// lean/Mq/Generated/Stream.lean. Proofs/Tie/Stream.lean proves the rendering equal to the model's `readPacket`
// (Mq/Stream.lean), which every theorem of C06, C07, C08 and the stream half of C15 is about.
//
// Captured from the source, not assumed: that each of the three reads is an `io.ReadFull` (a bare `r.Read` does not
// match), the sizes of the one-byte buffers, the order fixed byte → remaining length, the constants and the comparison
// of the length loop, the test `f.remainingLen == 0` that skips the body, the size of the body buffer, and that the
// reader's error is wrapped with %w at every site (errors.Is must see it, C08). The type switch in ReadRemaining is the
// Dispatch family's (decgen.go). Another shape makes the family `Stream` unavailable for the run (no alarm).
package main

import (
	"fmt"
	"go/ast"
	"go/types"
	"regexp"
	"sort"
	"strings"
)

// statements of a function with receiver and parameters renamed, joined by " ; "
func stmtsRenamed(fd *ast.FuncDecl, recv string, canon []string, from int) string {
	rename := map[types.Object]string{}
	if fd.Recv != nil && len(fd.Recv.List) == 1 && len(fd.Recv.List[0].Names) == 1 {
		rename[pkg.TypesInfo.Defs[fd.Recv.List[0].Names[0]]] = recv
	}
	k := 0
	for _, fl := range fd.Type.Params.List {
		for _, n := range fl.Names {
			if k < len(canon) {
				rename[pkg.TypesInfo.Defs[n]] = canon[k]
			}
			k++
		}
	}
	var ids []*ast.Ident
	var old []string
	ast.Inspect(fd.Body, func(x ast.Node) bool {
		if id, ok := x.(*ast.Ident); ok {
			obj := pkg.TypesInfo.Uses[id]
			if obj == nil {
				obj = pkg.TypesInfo.Defs[id]
			}
			if nm, ok := rename[obj]; ok && obj != nil {
				ids = append(ids, id)
				old = append(old, id.Name)
				id.Name = nm
			}
		}
		return true
	})
	var parts []string
	for i, s := range fd.Body.List {
		if i >= from {
			parts = append(parts, srcOf(s))
		}
	}
	for i, id := range ids {
		id.Name = old[i]
	}
	return strings.Join(parts, " ; ")
}

var (
	reReadPacket = regexp.MustCompile(`^var (\w+) fixedHeader ; if _, err := (\w+)\.ReadFrom\(r\); err (?:!=|==) nil \{ return nil, fmt\.Errorf\("[^"%]*%w[^"%]*", err\) \} ; return (\w+)\.ReadRemaining\(r\)$`)
	reHeaderFrom = regexp.MustCompile(`^(\w+), err := f\.fixed\.ReadFrom\(r\) ; if err (?:!=|==) nil \{ return (\w+), err \} ; (\w+), err := f\.remainingLen\.ReadFrom\(r\) ; return (\w+) \+ (\w+), err$`)
	reBitsFrom   = regexp.MustCompile(`^data := make\(\[\]byte, (\d+)\) ; if n, err := io\.ReadFull\(r, data\); err (?:!=|==) nil \{ return int64\(n\), err \} ; return (\d+), v\.UnmarshalBinary\(data\)$`)
	reVbFrom     = regexp.MustCompile(`^var (\w+) uint = 1 ; var (\w+) uint ; data := make\(\[\]byte, (\d+)\) ; var i int64 ; ` +
		`for \{ if _, err := io\.ReadFull\(r, data\); err (?:!=|==) nil \{ return i, err \} i\+\+ (\w+) := data\[0\] (\w+) \+= uint\((\w+)\) & uint\((\d+)\) \* (\w+) ` +
		`if (\w+) (>|>=) ([\d\*]+) \{ return i, unmarshalErr\(v, "", "size exceeded"\) \} if (\w+)&(\d+) (?:==|!=|<=|>=|<|>) 0 \{ break \} (\w+) = (\w+) \* (\d+) \} ; ` +
		`\*v = vbint\((\w+)\) ; return i, nil$`)
	reVbFromOps = regexp.MustCompile(`if \w+&\d+ (==|!=|<=|>=|<|>) 0 \{ break \}`)
	reRemaining = regexp.MustCompile(`^if f\.remainingLen (==|<=) (\d+) \{ return p, nil \} ; data := make\(\[\]byte, int\(f\.remainingLen\)\) ; ` +
		`if _, err := io\.ReadFull\(r, data\); err (?:!=|==) nil \{ return nil, fmt\.Errorf\( ?"[^"]*%w[^"]*", .*err,? ?\) \} ; ` +
		`if err := p\.UnmarshalBinary\(data\); err (?:!=|==) nil \{ return nil, fmt\.Errorf\( ?"[^"]*%w[^"]*", .*err,? ?\) \} ; return p, nil$`)
)

func streamGen() (string, []string) {
	funcs := map[string]*ast.FuncDecl{}
	for i, f := range pkg.Syntax {
		if strings.HasSuffix(pkg.CompiledGoFiles[i], "_test.go") {
			continue
		}
		for _, d := range f.Decls {
			if fd, ok := d.(*ast.FuncDecl); ok && fd.Body != nil {
				funcs[recvName(fd)+"."+fd.Name.Name] = fd
			}
		}
	}
	var bad []string
	// every `err != nil` of the five functions, as spelled (the patterns accept `==` too, so that the flip is rendered
	// as a fact the tie refutes instead of making the function unrecognisable)
	errTests := map[string]bool{}
	body := func(name, recv string, from int) (string, bool) {
		fd := funcs[name]
		if fd == nil {
			bad = append(bad, name)
			return "", false
		}
		b := stmtsRenamed(fd, recv, []string{"r"}, from)
		errTests[strings.TrimPrefix(name, ".")] = !strings.Contains(b, "err == nil")
		return b, true
	}
	k1, vbK, mask, op, limit, cont, step := "1", "1", "127", ">", "128*128*128", "128", "128"
	zop, zk := "=", "0"
	contOp := "="
	ok := true
	if b, have := body(".ReadPacket", "", 0); have {
		if m := reReadPacket.FindStringSubmatch(b); m == nil || m[1] != m[2] || m[1] != m[3] {
			bad, ok = append(bad, "ReadPacket: "+b), false
		}
	} else {
		ok = false
	}
	if b, have := body("fixedHeader.ReadFrom", "f", 0); have {
		if m := reHeaderFrom.FindStringSubmatch(b); m == nil || m[1] != m[2] || !((m[4] == m[1] && m[5] == m[3]) || (m[4] == m[3] && m[5] == m[1])) {
			bad, ok = append(bad, "fixedHeader.ReadFrom: "+b), false
		}
	} else {
		ok = false
	}
	if b, have := body("bits.ReadFrom", "v", 0); have {
		if m := reBitsFrom.FindStringSubmatch(b); m != nil && m[1] == m[2] {
			k1 = m[1]
		} else {
			bad, ok = append(bad, "bits.ReadFrom: "+b), false
		}
	} else {
		ok = false
	}
	if b, have := body("vbint.ReadFrom", "v", 0); have {
		m := reVbFrom.FindStringSubmatch(b)
		if m != nil && m[1] == m[8] && m[1] == m[9] && m[1] == m[14] && m[1] == m[15] && m[2] == m[5] && m[2] == m[17] && m[4] == m[6] && m[4] == m[12] {
			vbK, mask, op, limit, cont, step = m[3], m[7], map[string]string{">": ">", ">=": "≥"}[m[10]], m[11], m[13], m[16]
			contOp = map[string]string{"==": "=", "!=": "≠", "<": "<", "<=": "≤", ">": ">", ">=": "≥"}[reVbFromOps.FindStringSubmatch(b)[1]]
		} else {
			bad, ok = append(bad, "vbint.ReadFrom: "+b), false
		}
	} else {
		ok = false
	}
	if fd := funcs["fixedHeader.ReadRemaining"]; fd != nil && len(fd.Body.List) > 2 {
		// after `var p ControlPacket` and the type switch (Dispatch family)
		from := 0
		for i, s := range fd.Body.List {
			if _, isSwitch := s.(*ast.SwitchStmt); isSwitch {
				from = i + 1
			}
		}
		b := stmtsRenamed(fd, "f", []string{"r"}, from)
		errTests["fixedHeader.ReadRemaining"] = !strings.Contains(b, "err == nil")
		head := stmtsRenamed(fd, "f", []string{"r"}, 0)
		if m := reRemaining.FindStringSubmatch(b); m != nil && from == 2 && strings.HasPrefix(head, "var p ControlPacket ; switch byte(f.fixed) & 0b1111_0000 {") {
			zop, zk = map[string]string{"==": "=", "<=": "≤"}[m[1]], m[2]
		} else {
			bad, ok = append(bad, "fixedHeader.ReadRemaining: "+b), false
		}
	} else {
		bad, ok = append(bad, "fixedHeader.ReadRemaining"), false
	}

	var sb strings.Builder
	sb.WriteString("import Mq.Stream\n")
	sb.WriteString("/-! GENERATED by /verif/extract (mqextract, streamgen.go) from /repo's packet.go and wiretypes.go — do not edit; rewritten on every run.\n")
	sb.WriteString("`ReadPacket` over the model's scripted reader: three `io.ReadFull`s, the length loop, the skip of an empty body. -/\nnamespace Mq.Gen\n\n")
	if ok {
		fmt.Fprintf(&sb, `/-- `+"`vbint.ReadFrom`"+`: one `+"`io.ReadFull`"+` into a %s-byte buffer per iteration -/
def vbint.readFrom : Nat → Reader → Nat → Nat → (Option Nat × Option Err) × Reader
  | 0, r, _, _ => ((none, none), r)
  | fuel + 1, r, mult, acc =>
    match readFull r %s with
    | (_, some e, r') => ((none, some (.io e)), r')
    | (bs, none, r') =>
      match bs with
      | [] => ((none, none), r')
      | b :: _ =>
        let acc' := acc + (b.toNat &&& %s) * mult
        if mult %s %s then ((none, some .sizeExceeded), r')
        else if b.toNat &&& %s %s 0 then ((some acc', none), r')
        else vbint.readFrom fuel r' (mult * %s) acc'

/-- `+"`ReadPacket`"+` = `+"`fixedHeader.ReadFrom`"+` (fixed byte by `+"`bits.ReadFrom`"+`, then the remaining length) + `+"`ReadRemaining`"+` -/
def readPacket (r : Reader) : RP × Reader :=
  match readFull r %s with
  | (_, some e, r) => (.err (.io e), r)
  | ([], none, r) => (.hang, r)
  | (b0 :: _, none, r) =>
    match vbint.readFrom 5 r 1 0 with
    | ((_, some e), r) => (.err e, r)
    | ((none, none), r) => (.hang, r)
    | ((some n, none), r) =>
      let p := Packet.dispatch b0
      if n %s %s then (.pkt p, r)
      else match readFull r n with
        | (_, some e, r) => (.err (.io e), r)
        | (body, none, r) =>
          match p.unmarshal body with
          | (q, .ok) => (.pkt q, r)
          | (_, .err e) => (.err e, r)
          | (_, .panic) => (.panic, r)
          | (_, .hang) => (.hang, r)

`, vbK, vbK, mask, op, limit, cont, contOp, step, k1, zop, zk)
	} else {
		sb.WriteString("def readPacket (r : Reader) : RP × Reader := (.hang, r)\n\n")
	}
	var names []string
	for k := range errTests {
		names = append(names, k)
	}
	sort.Strings(names)
	sb.WriteString("/-- per function: every error test is spelled `err != nil` -/\ndef streamErrTests : List (String × Bool) := [")
	for i, k := range names {
		if i > 0 {
			sb.WriteString(", ")
		}
		fmt.Fprintf(&sb, "(%q, %v)", k, errTests[k])
	}
	sb.WriteString("]\n\n")
	fmt.Fprintf(&sb, "def untranslatedStream : List String := [%s]\n\nend Mq.Gen\n", quoteAll(bad))
	return sb.String(), bad
}
