// sites — `mqextract -sites <repo>` lists the places of the library where a one-token edit changes behaviour without
// (usually) breaking compilation: every comparison, boolean and arithmetic operator and every integer literal inside
// a function of a non-test file, with the replacement to try. tools/translator_coverage.py applies them one at a
// time to a scratch copy and asks whether the translation (lean/Mq/Generated/*) notices — the measured answer to
// "how much of the source does the regenerated model see".
package main

import (
	"encoding/json"
	"fmt"
	"go/ast"
	"go/token"
	"os"
	"strconv"
	"strings"

	"golang.org/x/tools/go/packages"
)

type mutSite struct {
	File string `json:"file"`
	Off  int    `json:"off"`
	Old  string `json:"old"`
	New  string `json:"new"`
	Func string `json:"func"`
	Line int    `json:"line"`
}

func listSites(dir string) {
	cfg := &packages.Config{Mode: packages.LoadAllSyntax, Dir: dir}
	pkgs, err := packages.Load(cfg, ".")
	if err != nil || len(pkgs) != 1 || len(pkgs[0].Errors) > 0 {
		fmt.Fprintln(os.Stderr, "mqextract -sites: cannot load package:", err)
		os.Exit(2)
	}
	p := pkgs[0]
	flip := map[token.Token]string{token.LSS: "<=", token.LEQ: "<", token.GTR: ">=", token.GEQ: ">", token.EQL: "!=", token.NEQ: "==",
		token.LAND: "||", token.LOR: "&&", token.ADD: "-", token.SUB: "+", token.AND: "|", token.OR: "&"}
	var out []mutSite
	for i, f := range p.Syntax {
		name := p.CompiledGoFiles[i]
		if strings.HasSuffix(name, "_test.go") || strings.HasSuffix(name, "_string.go") {
			continue
		}
		for _, d := range f.Decls {
			fd, ok := d.(*ast.FuncDecl)
			if !ok || fd.Body == nil {
				continue
			}
			fn := fd.Name.Name
			if r := recvName(fd); r != "" {
				fn = r + "." + fn
			}
			ast.Inspect(fd.Body, func(n ast.Node) bool {
				switch x := n.(type) {
				case *ast.BinaryExpr:
					if nw, ok := flip[x.Op]; ok {
						pos := p.Fset.Position(x.OpPos)
						out = append(out, mutSite{name, pos.Offset, x.Op.String(), nw, fn, pos.Line})
					}
				case *ast.BasicLit:
					if x.Kind == token.INT {
						if v, err := strconv.ParseInt(x.Value, 0, 64); err == nil {
							pos := p.Fset.Position(x.Pos())
							out = append(out, mutSite{name, pos.Offset, x.Value, strconv.FormatInt(v+1, 10), fn, pos.Line})
						}
					}
				}
				return true
			})
		}
	}
	json.NewEncoder(os.Stdout).Encode(out)
}
