// apigen — translates the exported setters and adders of every packet type (`Set…`, `Add…`) into one
// Lean function per type, `Gen.<Type>.api : <Type> → SetOp → Option <Type>`: lean/Mq/Generated/Api.lean.
// Proofs/Tie/Api.lean proves it equal to the hand-written `<Type>.apply` of Mq/Ops.lean, the API model
// that C12, C01_api/C02_api and the reachability invariants are about.
//
// Understood inside a setter body:
//
//	p.f = <expr>            p.f &= <const>        p.f.toggle(<expr>, <expr>)
//	p.f = append(p.f, <expr>[...])                if len(v) == 0 { … }        switch v { case K: … }
//	p.helper(<expr>)        an unexported method of the same type, inlined
//
// plus two idioms matched on their exact source: `Subscribe.SetSubscriptionID` (allocate the pointer,
// store) and `UserProperties.AddUserProp` (pairs of a variadic string list; the model's op adds one pair).
// Anything else yields `none` for that op together with an entry in `untranslated`, which fails the tie.
package main

import (
	"fmt"
	"go/ast"
	"go/token"
	"go/types"
	"os"
	"regexp"
	"sort"
	"strings"
)

type apiTr struct {
	recv   string
	funcs  map[string]*ast.FuncDecl
	params map[string]string // Go parameter name -> Lean expression
	depth  int
	bad    string
}

func (t *apiTr) fail(n ast.Node) string {
	if t.bad == "" {
		t.bad = srcOf(n)
	}
	return "default"
}

// a value expression
func (t *apiTr) val(e ast.Expr) string {
	if v, ok := constVal(e); ok {
		if bt, ok2 := pkg.TypesInfo.TypeOf(e).Underlying().(*types.Basic); ok2 && bt.Info()&types.IsInteger != 0 {
			return fmt.Sprintf("%d", v)
		}
	}
	switch x := e.(type) {
	case *ast.ParenExpr:
		return "(" + t.val(x.X) + ")"
	case *ast.Ident:
		if s, ok := t.params[x.Name]; ok {
			return s
		}
		switch x.Name {
		case "nil":
			return "[]"
		case "true", "false":
			return x.Name
		}
	case *ast.SelectorExpr:
		s := exprStr(x)
		if strings.HasPrefix(s, "p.") && strings.Count(s, ".") == 1 {
			return s
		}
		// will.payload
		if id, ok := x.X.(*ast.Ident); ok {
			if b, ok := t.params[id.Name]; ok {
				return b + "." + x.Sel.Name
			}
		}
	case *ast.CallExpr:
		// conversions between byte-string / integer / bool wrapper types
		if len(x.Args) == 1 {
			if tv, ok := pkg.TypesInfo.Types[x.Fun]; ok && tv.IsType() {
				return t.val(x.Args[0])
			}
		}
		if id, ok := x.Fun.(*ast.Ident); ok && id.Name == "len" && len(x.Args) == 1 {
			return t.val(x.Args[0]) + ".length"
		}
		// will.Retain(), will.QoS()
		if se, ok := x.Fun.(*ast.SelectorExpr); ok && len(x.Args) == 0 {
			if id, ok := se.X.(*ast.Ident); ok {
				if b, ok := t.params[id.Name]; ok {
					switch se.Sel.Name {
					case "Retain":
						return b + ".retain"
					case "QoS":
						return b + ".qos"
					}
				}
			}
		}
	case *ast.BinaryExpr:
		switch x.Op {
		case token.SHL:
			return t.val(x.X) + " <<< " + t.val(x.Y)
		case token.GTR:
			return "decide (" + t.val(x.X) + " > " + t.val(x.Y) + ")"
		case token.LSS:
			return "decide (" + t.val(x.X) + " < " + t.val(x.Y) + ")"
		case token.EQL:
			return "decide (" + t.val(x.X) + " = " + t.val(x.Y) + ")"
		}
	}
	return t.fail(e)
}

// statements as successive `let p := …;`
func (t *apiTr) stmts(list []ast.Stmt) []string {
	var out []string
	for _, s := range list {
		switch x := s.(type) {
		case *ast.AssignStmt:
			if len(x.Lhs) != 1 || len(x.Rhs) != 1 {
				out = append(out, t.fail(s))
				continue
			}
			lhs := exprStr(x.Lhs[0])
			if !strings.HasPrefix(lhs, "p.") || strings.Count(lhs, ".") != 1 {
				out = append(out, t.fail(s))
				continue
			}
			f := lhs[2:]
			switch x.Tok {
			case token.ASSIGN:
				// p.f = append(p.f, e) / append(p.f, v...)
				if ce, ok := x.Rhs[0].(*ast.CallExpr); ok && exprStr(ce.Fun) == "append" && len(ce.Args) == 2 && exprStr(ce.Args[0]) == lhs {
					if ce.Ellipsis != token.NoPos {
						out = append(out, fmt.Sprintf("{ p with %s := p.%s ++ %s }", f, f, t.val(ce.Args[1])))
					} else {
						out = append(out, fmt.Sprintf("{ p with %s := p.%s ++ [%s] }", f, f, t.val(ce.Args[1])))
					}
					continue
				}
				v := t.val(x.Rhs[0])
				// a pointer field receives `some`
				if _, ok := pkg.TypesInfo.TypeOf(x.Lhs[0]).(*types.Pointer); ok {
					v = "some " + v
				}
				out = append(out, fmt.Sprintf("{ p with %s := %s }", f, v))
			case token.AND_ASSIGN:
				out = append(out, fmt.Sprintf("{ p with %s := p.%s &&& %s }", f, f, t.val(x.Rhs[0])))
			default:
				out = append(out, t.fail(s))
			}
		case *ast.ExprStmt:
			ce, ok := x.X.(*ast.CallExpr)
			if !ok {
				out = append(out, t.fail(s))
				continue
			}
			se, ok := ce.Fun.(*ast.SelectorExpr)
			if !ok {
				out = append(out, t.fail(s))
				continue
			}
			recv := exprStr(se.X)
			switch {
			case se.Sel.Name == "toggle" && len(ce.Args) == 2 && strings.HasPrefix(recv, "p.") && strings.Count(recv, ".") == 1:
				f := recv[2:]
				out = append(out, fmt.Sprintf("{ p with %s := toggle p.%s (%s) (%s) }", f, f, t.val(ce.Args[0]), t.val(ce.Args[1])))
			case recv == "p" && t.depth < 2:
				// an unexported helper of the same type, inlined with its parameters bound
				fd := t.funcs[t.recv+"."+se.Sel.Name]
				if fd == nil || ast.IsExported(se.Sel.Name) || fd.Type.Params.NumFields() != len(ce.Args) {
					out = append(out, t.fail(s))
					continue
				}
				sub := &apiTr{recv: t.recv, funcs: t.funcs, params: map[string]string{}, depth: t.depth + 1}
				i := 0
				for _, fl := range fd.Type.Params.List {
					for _, n := range fl.Names {
						sub.params[n.Name] = "(" + t.val(ce.Args[i]) + ")"
						i++
					}
				}
				out = append(out, sub.stmts(fd.Body.List)...)
				if sub.bad != "" && t.bad == "" {
					t.bad = sub.bad
				}
			default:
				out = append(out, t.fail(s))
			}
		case *ast.IfStmt:
			if x.Init != nil || x.Else != nil {
				out = append(out, t.fail(s))
				continue
			}
			body := t.stmts(x.Body.List)
			out = append(out, fmt.Sprintf("(if %s then %s else p)", t.val(x.Cond), chain(body)))
		case *ast.SwitchStmt:
			if x.Init != nil || x.Tag == nil {
				out = append(out, t.fail(s))
				continue
			}
			tag := t.val(x.Tag)
			var sb strings.Builder
			sb.WriteString("(")
			for _, c := range x.Body.List {
				cc := c.(*ast.CaseClause)
				if len(cc.List) != 1 {
					return append(out, t.fail(s))
				}
				fmt.Fprintf(&sb, "if %s = %s then %s else ", tag, t.val(cc.List[0]), chain(t.stmts(cc.Body)))
			}
			sb.WriteString("p)")
			out = append(out, sb.String())
		default:
			out = append(out, t.fail(s))
		}
	}
	return out
}

func chain(steps []string) string {
	if len(steps) == 0 {
		return "p"
	}
	if len(steps) == 1 {
		return steps[0]
	}
	var sb strings.Builder
	sb.WriteString("(")
	for _, s := range steps[:len(steps)-1] {
		sb.WriteString("let p := " + s + "; ")
	}
	sb.WriteString(steps[len(steps)-1] + ")")
	return sb.String()
}

const setSubIDSrc = "if p.subscriptionID == nil { p.subscriptionID = new(vbint) }|*p.subscriptionID = vbint(v)"
const addUserPropSrc = "for i := 0; i < len(kvPair); i += 2 { p.appendUserProperty(UserProp{kvPair[i], kvPair[i+1]}) }"

func apiGen(leanDir string) string {
	funcs := map[string]*ast.FuncDecl{}
	for i, f := range pkg.Syntax {
		if strings.HasSuffix(pkg.CompiledGoFiles[i], "_test.go") {
			continue
		}
		for _, d := range f.Decls {
			if fd, ok := d.(*ast.FuncDecl); ok {
				funcs[recvName(fd)+"."+fd.Name.Name] = fd
			}
		}
	}
	// the constructors of SetOp, read from the model
	ctors := map[string]bool{}
	src, err := os.ReadFile(leanDir + "/../Ops.lean")
	if err != nil {
		src, err = os.ReadFile("/verif/lean/Mq/Ops.lean")
	}
	if err == nil {
		for _, m := range regexp.MustCompile(`(?m)^  \| ([a-zA-Z]+)[ (]`).FindAllStringSubmatch(string(src), -1) {
			ctors[m[1]] = true
		}
	}
	var sb strings.Builder
	sb.WriteString("import Mq.Ops\n")
	sb.WriteString("/-! GENERATED by /verif/extract (mqextract, apigen.go) from /repo's source — do not edit; rewritten on every run.\n")
	sb.WriteString("The exported setters and adders of every packet type, translated statement by statement. -/\n")
	sb.WriteString("namespace Mq.Gen\n\n")
	var recvs []string
	for r := range leanRecvType {
		if r != "TopicFilter" {
			recvs = append(recvs, r)
		}
	}
	sort.Strings(recvs)
	var untranslated []string
	var skipped []string
	userPropsOK := false
	if fd := funcs["UserProperties.AddUserProp"]; fd != nil && len(fd.Body.List) == 1 && srcOf(fd.Body.List[0]) == addUserPropSrc {
		if ad := funcs["UserProperties.appendUserProperty"]; ad != nil && len(ad.Body.List) == 1 && srcOf(ad.Body.List[0]) == "*p = append(*p, prop)" {
			userPropsOK = true
		}
	}
	for _, recv := range recvs {
		lean := leanRecvType[recv]
		var names []string
		for k, fd := range funcs {
			if recvName(fd) == recv && (strings.HasPrefix(fd.Name.Name, "Set") || strings.HasPrefix(fd.Name.Name, "Add")) && ast.IsExported(fd.Name.Name) {
				names = append(names, k)
			}
		}
		sort.Strings(names)
		fmt.Fprintf(&sb, "def %s.api (p : Mq.%s) : SetOp → Option Mq.%s\n", recv, lean, lean)
		for _, k := range names {
			fd := funcs[k]
			ctor := lowerFirst(fd.Name.Name)
			if !ctors[ctor] {
				skipped = append(skipped, k)
				continue
			}
			if len(fd.Recv.List[0].Names) != 1 || fd.Recv.List[0].Names[0].Name != "p" {
				untranslated = append(untranslated, k)
				continue
			}
			t := &apiTr{recv: recv, funcs: funcs, params: map[string]string{}}
			var pat []string
			for _, fl := range fd.Type.Params.List {
				for _, n := range fl.Names {
					t.params[n.Name] = n.Name
					pat = append(pat, n.Name)
				}
			}
			body := ""
			var parts []string
			for _, s := range fd.Body.List {
				parts = append(parts, srcOf(s))
			}
			if k == "Subscribe.SetSubscriptionID" && strings.Join(parts, "|") == setSubIDSrc {
				body = "{ p with subscriptionID := some v }"
			} else {
				body = chain(t.stmts(fd.Body.List))
			}
			if t.bad != "" {
				untranslated = append(untranslated, k+": "+t.bad)
				fmt.Fprintf(&sb, "  | .%s %s => none\n", ctor, strings.Repeat("_ ", len(pat)))
				continue
			}
			fmt.Fprintf(&sb, "  | .%s %s => some %s\n", ctor, strings.Join(pat, " "), body)
		}
		// the promoted UserProperties.AddUserProp
		if obj := pkg.Types.Scope().Lookup(recv); obj != nil {
			ms := types.NewMethodSet(types.NewPointer(obj.Type()))
			if sel := ms.Lookup(pkg.Types, "AddUserProp"); sel != nil {
				if r := sel.Obj().(*types.Func).Type().(*types.Signature).Recv(); r != nil && namedName(r.Type()) == "UserProperties" && userPropsOK {
					sb.WriteString("  | .addUserProp k v => some { p with userProps := p.userProps ++ [(k, v)] }\n")
				} else {
					untranslated = append(untranslated, recv+".AddUserProp")
				}
			}
		}
		sb.WriteString("  | _ => none\n\n")
	}
	// ---- accessors: exported niladic methods with a single return
	accIdioms := map[string]string{
		"Publish.QoS|switch { case p.fixed.Has(QoS3): return 3 case p.fixed.Has(QoS1): return 1 case p.fixed.Has(QoS2): return 2 }|return 0":                       ".n p.qos.toNat",
		"Subscribe.SubscriptionID|if p.subscriptionID == nil { return -1 }|return int(*p.subscriptionID)":                                                                  ".i p.subscriptionIDInt",
		"Unsubscribe.Filters|res := make([]string, len(p.filters))|for i, v := range p.filters { res[i] = string(v) }|return res":                                       ".strs p.filters",
	}
	var untranslatedAcc []string
	recvsAcc := append(append([]string{}, recvs...), "Undefined")
	sort.Strings(recvsAcc)
	for _, recv := range recvsAcc {
		lean := leanDecRecv[recv]
		if lean == "" {
			continue
		}
		var names []string
		for k, fd := range funcs {
			n := fd.Name.Name
			if recvName(fd) != recv || !ast.IsExported(n) || fd.Type.Params.NumFields() != 0 || fd.Type.Results.NumFields() != 1 || fd.Body == nil {
				continue
			}
			if n == "String" || n == "WellFormed" || n == "Will" {
				continue
			}
			names = append(names, k)
		}
		sort.Strings(names)
		var ents []string
		for _, k := range names {
			fd := funcs[k]
			var parts []string
			for _, st := range fd.Body.List {
				parts = append(parts, srcOf(st))
			}
			if v, ok := accIdioms[k+"|"+strings.Join(parts, "|")]; ok {
				ents = append(ents, fmt.Sprintf("(%s, %s)", leanStr(fd.Name.Name), v))
				continue
			}
			val := ""
			if len(fd.Body.List) == 1 && len(fd.Recv.List[0].Names) == 1 && fd.Recv.List[0].Names[0].Name == "p" {
				if rs, ok := fd.Body.List[0].(*ast.ReturnStmt); ok && len(rs.Results) == 1 {
					e := rs.Results[0]
					// strip conversions
					for {
						ce, ok := e.(*ast.CallExpr)
						if !ok || len(ce.Args) != 1 {
							break
						}
						if tv, ok := pkg.TypesInfo.Types[ce.Fun]; !ok || !tv.IsType() {
							break
						}
						e = ce.Args[0]
					}
					src := exprStr(e)
					rt := pkg.TypesInfo.TypeOf(fd.Type.Results.List[0].Type)
					field := strings.HasPrefix(src, "p.") && strings.Count(src, ".") == 1
					switch rts := rt.String(); {
					case field && (rts == "uint8" || rts == "uint16" || rts == "uint32" || strings.HasSuffix(rts, ".ReasonCode")):
						val = ".n " + src + ".toNat"
					case field && rts == "bool":
						val = ".b " + src
					case field && (rts == "string" || rts == "[]byte" || rts == "[]uint8"):
						val = ".s " + src
					case field && rts == "[]uint32":
						val = ".nats (" + src + ".map UInt32.toNat)"
					case field && strings.HasSuffix(rts, ".TopicFilter") && strings.HasPrefix(rts, "[]"):
						val = ".filters (" + src + ".map fun f => (f.filter, f.options))"
					case rts == "bool":
						if ce, ok := e.(*ast.CallExpr); ok && len(ce.Args) == 1 {
							if se, ok := ce.Fun.(*ast.SelectorExpr); ok && se.Sel.Name == "Has" {
								r := exprStr(se.X)
								if v, okc := constVal(ce.Args[0]); okc && strings.HasPrefix(r, "p.") && strings.Count(r, ".") == 1 {
									val = fmt.Sprintf(".b (has %s %d)", r, v)
								}
							}
						}
					}
				}
			}
			if val == "" {
				untranslatedAcc = append(untranslatedAcc, k)
				continue
			}
			ents = append(ents, fmt.Sprintf("(%s, %s)", leanStr(fd.Name.Name), val))
		}
		fmt.Fprintf(&sb, "/-- the exported accessors of `%s`: name and value -/\ndef %s.accessors (p : Mq.%s) : View :=\n  [%s]\n\n", recv, recv, lean, strings.Join(ents, ",\n   "))
	}
	sort.Strings(untranslatedAcc)
	fmt.Fprintf(&sb, "/-- accessors the translator could not render -/\ndef untranslatedAccessors : List String := [%s]\n\n", quoteAll(untranslatedAcc))

	sb.WriteString(wfGen(funcs))

	sort.Strings(untranslated)
	sort.Strings(skipped)
	fmt.Fprintf(&sb, "/-- setters the translator could not render -/\ndef untranslatedSetters : List String := [%s]\n\n", quoteAll(untranslated))
	fmt.Fprintf(&sb, "/-- exported Set…/Add… methods that have no `SetOp` constructor in the model -/\ndef unmodelledSetters : List String := [%s]\n\n", quoteAll(skipped))
	sb.WriteString("end Mq.Gen\n")
	return sb.String()
}

// ---- WellFormed: `if <cond> { return newMalformed(x, "ref", "reason") }`, a `switch p.QoS()` over such ifs/returns,
// a loop over the filters returning the first per-filter verdict, `return nil`

type wfTr struct {
	recvVar string
	bad     string
}

func (t *wfTr) fail(n ast.Node) string {
	if t.bad == "" {
		t.bad = srcOf(n)
	}
	return "none"
}

func (t *wfTr) path(e ast.Expr) (string, bool) {
	s := exprStr(e)
	if strings.HasPrefix(s, t.recvVar+".") && strings.Count(s, ".") == 1 {
		return "p." + s[len(t.recvVar)+1:], true
	}
	return "", false
}

func (t *wfTr) cond(e ast.Expr) string {
	switch x := e.(type) {
	case *ast.ParenExpr:
		return "(" + t.cond(x.X) + ")"
	case *ast.BinaryExpr:
		switch x.Op {
		case token.LAND:
			return t.cond(x.X) + " ∧ " + t.cond(x.Y)
		case token.LOR:
			return t.cond(x.X) + " ∨ " + t.cond(x.Y)
		case token.EQL:
			if lit, ok := x.Y.(*ast.BasicLit); ok && lit.Kind == token.INT {
				if ce, ok := x.X.(*ast.CallExpr); ok && exprStr(ce.Fun) == "len" && len(ce.Args) == 1 {
					if p, ok := t.path(ce.Args[0]); ok {
						return p + ".length = " + lit.Value
					}
				}
				if p, ok := t.path(x.X); ok {
					return p + " = " + lit.Value
				}
			}
		}
	case *ast.CallExpr:
		if se, ok := x.Fun.(*ast.SelectorExpr); ok && se.Sel.Name == "Has" && len(x.Args) == 1 {
			if p, ok := t.path(se.X); ok {
				if v, ok := constVal(x.Args[0]); ok {
					return fmt.Sprintf("has %s %d = true", p, v)
				}
			}
		}
	}
	return "(" + t.fail(e) + " = none)"
}

// `return newMalformed(x, "ref", "reason")`
func (t *wfTr) malformed(s ast.Stmt) (string, bool) {
	rs, ok := s.(*ast.ReturnStmt)
	if !ok || len(rs.Results) != 1 {
		return "", false
	}
	ce, ok := rs.Results[0].(*ast.CallExpr)
	if !ok || exprStr(ce.Fun) != "newMalformed" || len(ce.Args) != 3 {
		return "", false
	}
	a, ok1 := ce.Args[1].(*ast.BasicLit)
	b, ok2 := ce.Args[2].(*ast.BasicLit)
	if !ok1 || !ok2 || a.Kind != token.STRING || b.Kind != token.STRING {
		return "", false
	}
	return "some (" + a.Value + ", " + b.Value + ")", true
}

// the verdict of a statement list followed by `rest`
func (t *wfTr) seq(list []ast.Stmt, rest string) string {
	if len(list) == 0 {
		return rest
	}
	s := list[0]
	tail := t.seq(list[1:], rest)
	if v, ok := t.malformed(s); ok {
		return v
	}
	switch x := s.(type) {
	case *ast.ReturnStmt:
		if len(x.Results) == 1 && exprStr(x.Results[0]) == "nil" {
			return "none"
		}
	case *ast.IfStmt:
		if x.Else != nil {
			break
		}
		if x.Init != nil {
			// if v := p.subscriptionID; v != nil && *v > K { return … }
			if srcOf(x.Init) == "v := "+t.recvVar+".subscriptionID" {
				if be, ok := x.Cond.(*ast.BinaryExpr); ok && be.Op == token.LAND && srcOf(be.X) == "v != nil" {
					if gt, ok := be.Y.(*ast.BinaryExpr); ok && gt.Op == token.GTR && srcOf(gt.X) == "*v" {
						if k, ok := constVal(gt.Y); ok && len(x.Body.List) == 1 {
							if v, ok := t.malformed(x.Body.List[0]); ok {
								return fmt.Sprintf("(if p.subscriptionID.any (· > %d) then %s else %s)", k, v, tail)
							}
						}
					}
				}
			}
			break
		}
		return fmt.Sprintf("(if %s then %s else %s)", t.cond(x.Cond), t.seq(x.Body.List, tail), tail)
	case *ast.SwitchStmt:
		// switch p.QoS() { case 1, 2: …  case 3: … }
		if x.Init == nil && x.Tag != nil && srcOf(x.Tag) == t.recvVar+".QoS()" {
			out := tail
			for i := len(x.Body.List) - 1; i >= 0; i-- {
				cc := x.Body.List[i].(*ast.CaseClause)
				if cc.List == nil {
					return t.fail(s)
				}
				var alts []string
				for _, e := range cc.List {
					lit, ok := e.(*ast.BasicLit)
					if !ok {
						return t.fail(s)
					}
					alts = append(alts, "p.qos = "+lit.Value)
				}
				out = fmt.Sprintf("(if %s then %s else %s)", strings.Join(alts, " ∨ "), t.seq(cc.Body, tail), out)
			}
			return out
		}
	case *ast.RangeStmt:
		// for _, f := range p.filters { if err := f.WellFormed(); err != nil { return err } }
		if p, ok := t.path(x.X); ok && p == "p.filters" && len(x.Body.List) == 1 &&
			srcOf(x.Body.List[0]) == "if err := "+exprStr(x.Value)+".WellFormed(); err != nil { return err }" {
			return fmt.Sprintf("(match p.filters.findSome? Mq.Gen.TopicFilter.wellFormed with | some e => some e | none => %s)", tail)
		}
	}
	return t.fail(s)
}

func wfGen(funcs map[string]*ast.FuncDecl) string {
	var sb strings.Builder
	var bad []string
	for _, k := range []string{"TopicFilter.WellFormed", "Publish.WellFormed", "Subscribe.WellFormed"} {
		fd := funcs[k]
		recv := strings.Split(k, ".")[0]
		body := "none"
		if fd == nil || fd.Body == nil || len(fd.Recv.List[0].Names) != 1 {
			bad = append(bad, k)
		} else {
			t := &wfTr{recvVar: fd.Recv.List[0].Names[0].Name}
			body = t.seq(fd.Body.List, "none")
			if t.bad != "" {
				bad = append(bad, k+": "+t.bad)
			}
		}
		fmt.Fprintf(&sb, "/-- `%s`: `(ref, reason)` of the `*Malformed`, `none` = nil -/\ndef %s.wellFormed (p : Mq.%s) : Option (String × String) :=\n  %s\n\n", k, recv, recv, body)
	}
	// every other packet type must be without a WellFormed method (the model gives them none)
	var others []string
	for k := range funcs {
		if strings.HasSuffix(k, ".WellFormed") && k != "TopicFilter.WellFormed" && k != "Publish.WellFormed" && k != "Subscribe.WellFormed" {
			others = append(others, k)
		}
	}
	sort.Strings(others)
	fmt.Fprintf(&sb, "def untranslatedWellFormed : List String := [%s]\n\n", quoteAll(append(bad, others...)))
	return sb.String()
}
