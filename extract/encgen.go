// encgen — translates the encoder methods of /repo (`fill`, `variableHeader`, `payload`,
// `properties` of every packet type and `TopicFilter.fill`) into Lean definitions over the
// `Filler` combinators of Mq/Fill.lean. The result, lean/Mq/Generated/Enc.lean, is a model of
// the encoder regenerated from the source on every run; Proofs/Tie/Enc.lean proves it equal to the
// hand-written fillers that the encoder theorems are about.
//
// The fragment understood is the one these methods are written in:
//
//	n := i                                   (ignored)
//	i += <call>                              one item of the sequence
//	x := <int expr>                          let
//	name := func(b []byte, i int) int {…}    let (a local filler)
//	if <cond> { x += <int expr> }            let x := x + (if cond then e else 0)
//	if <cond> { return 0 }                   early exit, only before the first item
//	if [v := p.M();] <cond> { items }        conditional item
//	for j := range p.F { i += <call> }       one item per element
//	for id, v := range p.propertyMap(..) {…} the single entry of that map literal
//	return i | return i - n
//
// Anything else becomes `Filler.unknown "<source>"`, which compiles and makes the tie theorem fail.
package main

import (
	"fmt"
	"go/ast"
	"go/token"
	"go/types"
	"sort"
	"strings"
)

var leanRecvType = map[string]string{
	"Connect": "Connect", "ConnAck": "ConnAck", "Publish": "Publish",
	"PubAck": "Ack", "PubRec": "Ack", "PubRel": "Ack", "PubComp": "Ack",
	"Subscribe": "Subscribe", "SubAck": "SubAck", "UnsubAck": "SubAck", "Unsubscribe": "Unsubscribe",
	"PingReq": "Ping", "PingResp": "Ping", "Disconnect": "Disconnect", "Auth": "Auth",
	"TopicFilter": "TopicFilter",
}

var encMethodNames = map[string]bool{"fill": true, "variableHeader": true, "payload": true, "properties": true}

// accessor methods used inside conditions
var leanAccessor = map[string]string{"QoS": "qos"}

type encFn struct {
	key      string // "Connect.payload"
	recv     string
	name     string
	decl     *ast.FuncDecl
	body     string
	usesWill bool
	callees  []string
}

type tr struct {
	fn      *encFn
	recvVar string
	funcs   map[string]*ast.FuncDecl
	locals  map[string]string // name -> "int" | "closure"
	subst   map[string]string // printed Go expression -> Lean expression (loop element, if-init variable)
	depth   int               // inlining depth of helper predicates
}

func lowerFirst(s string) string {
	if s == "" {
		return s
	}
	return strings.ToLower(s[:1]) + s[1:]
}

func unknownF(e ast.Node) string {
	return "(Filler.unknown " + leanStr(nodeSrc(e)) + ")"
}

func nodeSrc(n ast.Node) string {
	switch x := n.(type) {
	case ast.Expr:
		return exprStr(x)
	}
	return fmt.Sprintf("%T at %s", n, fset.Position(n.Pos()))
}

func namedName(t types.Type) string {
	if t == nil {
		return ""
	}
	if p, ok := t.(*types.Pointer); ok {
		t = p.Elem()
	}
	s := t.String()
	return s[strings.LastIndex(s, ".")+1:]
}

// the Lean filler for a value of Go type t held in Lean expression e
func (t *tr) fillOfType(ty types.Type, e string, src ast.Node) string {
	switch namedName(ty) {
	case "wstring", "bindata":
		return "fillBin " + e
	case "rawdata":
		return "fillRaw " + e
	case "wuint16":
		return "fillU16 " + e
	case "wuint32":
		return "fillU32 " + e
	case "wbool":
		return "fillBool " + e
	case "wuint8", "bits", "Ident", "byte", "uint8":
		return "fillByte " + e
	case "vbint":
		return "fillVb " + e
	case "TopicFilter":
		t.fn.callees = append(t.fn.callees, "TopicFilter.fill")
		return "(Mq.Gen.TopicFilter.fill " + e + ")"
	}
	return unknownF(src)
}

// a Go lvalue path rooted at the receiver, as a Lean expression: p.will.topicName -> will.topicName
func (t *tr) path(e ast.Expr) (string, bool) {
	if s, ok := t.subst[exprStr(e)]; ok {
		return s, true
	}
	switch x := e.(type) {
	case *ast.Ident:
		if x.Name == t.recvVar {
			return "p", true
		}
		return "", false
	case *ast.ParenExpr:
		return t.path(x.X)
	case *ast.SelectorExpr:
		base, ok := t.path(x.X)
		if !ok {
			return "", false
		}
		name := x.Sel.Name
		if name == "UserProperties" {
			name = "userProps"
		}
		if base == "p" && name == "will" {
			t.fn.usesWill = true
			return "will", true
		}
		return base + "." + name, true
	}
	return "", false
}

// an int-valued Go expression (widths) as a Lean Nat expression
func (t *tr) intExpr(e ast.Expr) string {
	switch x := e.(type) {
	case *ast.ParenExpr:
		return "(" + t.intExpr(x.X) + ")"
	case *ast.BasicLit:
		if x.Kind == token.INT {
			return x.Value
		}
	case *ast.Ident:
		if t.locals[x.Name] == "int" {
			return x.Name
		}
	case *ast.BinaryExpr:
		if x.Op == token.ADD {
			return t.intExpr(x.X) + " + " + t.intExpr(x.Y)
		}
	case *ast.CallExpr:
		// vbint(e), int(e)
		if id, ok := x.Fun.(*ast.Ident); ok && len(x.Args) == 1 && (id.Name == "vbint" || id.Name == "int") {
			if t.locals[id.Name] == "" {
				inner := x.Args[0]
				if bt, ok := pkg.TypesInfo.TypeOf(inner).Underlying().(*types.Basic); ok && bt.Kind() == types.Uint32 {
					if p, ok := t.path(inner); ok {
						return p + ".toNat"
					}
				}
				return t.intExpr(inner)
			}
		}
		// f(_LEN, 0): a dry run
		if len(x.Args) == 2 && exprStr(x.Args[0]) == "_LEN" && exprStr(x.Args[1]) == "0" {
			if f := t.filler(x.Fun, x); f != "" {
				return "(" + f + ").dry"
			}
		}
	}
	return "(Filler.unknownNat " + leanStr(exprStr(e)) + ")"
}

// the filler denoted by the callee `fun` of a call `fun(b, i)` / `fun(_LEN, 0)`
func (t *tr) filler(fun ast.Expr, call *ast.CallExpr) string {
	switch f := fun.(type) {
	case *ast.Ident:
		if t.locals[f.Name] == "closure" {
			return f.Name
		}
	case *ast.SelectorExpr:
		switch f.Sel.Name {
		case "fill":
			return t.fillOf(f.X, call)
		case "fillProp":
			return "" // needs the identifier argument: handled in item()
		case "properties", "variableHeader", "payload":
			// embedded UserProperties.properties
			if sel, ok := pkg.TypesInfo.Selections[f]; ok {
				if rn := namedName(sel.Recv()); f.Sel.Name == "properties" {
					if fnObj, ok := sel.Obj().(*types.Func); ok {
						if r := fnObj.Type().(*types.Signature).Recv(); r != nil && namedName(r.Type()) == "UserProperties" {
							if p, ok := t.path(f.X); ok {
								if strings.HasSuffix(p, ".userProps") {
									return "fillUserProps " + p
								}
								return "fillUserProps " + p + ".userProps"
							}
						}
					}
					_ = rn
				}
			}
			// a method of the receiver's own type
			if p, ok := t.path(f.X); ok && p == "p" {
				key := t.fn.recv + "." + f.Sel.Name
				if _, ok := t.funcs[key]; ok {
					t.fn.callees = append(t.fn.callees, key)
					return "Mq.Gen." + key + " p" + "«WILL:" + key + "»"
				}
			}
		}
	}
	return ""
}

// X.fill(...) for the receiver expression X
func (t *tr) fillOf(x ast.Expr, src ast.Node) string {
	// vbint(e).fill / wuint8(e).fill: a conversion
	if ce, ok := x.(*ast.CallExpr); ok && len(ce.Args) == 1 {
		if id, ok := ce.Fun.(*ast.Ident); ok {
			switch id.Name {
			case "vbint":
				return "fillVb (" + t.intExpr(ce) + ")"
			case "wuint8":
				if p, ok := t.path(ce.Args[0]); ok {
					return "fillByte " + p
				}
			}
		}
		return unknownF(src)
	}
	if id, ok := x.(*ast.Ident); ok && t.locals[id.Name] == "int" {
		return "fillVb " + id.Name
	}
	if p, ok := t.path(x); ok {
		return t.fillOfType(pkg.TypesInfo.TypeOf(x), p, src)
	}
	return unknownF(src)
}

// the right-hand side of `i += <call>`
func (t *tr) item(e ast.Expr) string {
	ce, ok := e.(*ast.CallExpr)
	if !ok {
		return unknownF(e)
	}
	if se, ok := ce.Fun.(*ast.SelectorExpr); ok && se.Sel.Name == "fillProp" && len(ce.Args) == 3 {
		id, okc := constVal(ce.Args[2])
		if !okc {
			return unknownF(e)
		}
		// vbint(p.F[j]).fillProp
		if conv, ok := se.X.(*ast.CallExpr); ok && len(conv.Args) == 1 && exprStr(conv.Fun) == "vbint" {
			return fmt.Sprintf("fillProp 0x%02x (.vb (%s))", id, t.intExpr(conv))
		}
		p, okp := t.path(se.X)
		k := wkind(pkg.TypesInfo.TypeOf(se.X))
		if !okp || strings.HasPrefix(k, "?") {
			return unknownF(e)
		}
		return fmt.Sprintf("fillProp 0x%02x (%s %s)", id, k, p)
	}
	if len(ce.Args) == 2 && exprStr(ce.Args[0]) == "b" && exprStr(ce.Args[1]) == "i" {
		if f := t.filler(ce.Fun, ce); f != "" {
			return f
		}
	}
	return unknownF(e)
}

func (t *tr) cond(e ast.Expr) string {
	switch x := e.(type) {
	case *ast.ParenExpr:
		return "(" + t.cond(x.X) + ")"
	case *ast.BinaryExpr:
		switch x.Op {
		case token.LOR:
			return t.cond(x.X) + " ∨ " + t.cond(x.Y)
		case token.LAND:
			return t.cond(x.X) + " ∧ " + t.cond(x.Y)
		case token.EQL, token.NEQ, token.GTR:
			op := map[token.Token]string{token.EQL: "=", token.NEQ: "≠", token.GTR: ">"}[x.Op]
			return t.scalar(x.X) + " " + op + " " + t.scalar(x.Y)
		}
	case *ast.CallExpr:
		// p.flags.Has(K) / bits(p.flags).Has(K)
		if se, ok := x.Fun.(*ast.SelectorExpr); ok && se.Sel.Name == "Has" && len(x.Args) == 1 {
			recv := se.X
			if conv, ok := recv.(*ast.CallExpr); ok && len(conv.Args) == 1 {
				recv = conv.Args[0]
			}
			if p, ok := t.path(recv); ok {
				if v, ok := constVal(x.Args[0]); ok {
					return fmt.Sprintf("has %s %d", p, v)
				}
			}
		}
	}
	// p.helper(): a niladic method of the receiver's type whose body is `return <cond>` is inlined
	if x, ok := e.(*ast.CallExpr); ok && len(x.Args) == 0 {
		if se, ok := x.Fun.(*ast.SelectorExpr); ok {
			if p, ok := t.path(se.X); ok && p == "p" {
				if fd := t.funcs[t.fn.recv+"."+se.Sel.Name]; fd != nil && fd.Body != nil && len(fd.Body.List) == 1 && t.depth < 3 {
					if rs, ok := fd.Body.List[0].(*ast.ReturnStmt); ok && len(rs.Results) == 1 {
						if bt, ok := pkg.TypesInfo.TypeOf(rs.Results[0]).Underlying().(*types.Basic); ok && bt.Kind() == types.Bool {
							rv := "p"
							if len(fd.Recv.List[0].Names) == 1 {
								rv = fd.Recv.List[0].Names[0].Name
							}
							sub := &tr{fn: t.fn, recvVar: rv, funcs: t.funcs, locals: map[string]string{}, subst: map[string]string{}, depth: t.depth + 1}
							return "(" + sub.cond(rs.Results[0]) + ")"
						}
					}
				}
			}
		}
	}
	// p.HasFlag(K): the exported wrapper around p.flags.Has
	if x, ok := e.(*ast.CallExpr); ok && len(x.Args) == 1 {
		if se, ok := x.Fun.(*ast.SelectorExpr); ok && se.Sel.Name == "HasFlag" {
			if p, ok := t.path(se.X); ok && p == "p" {
				if v, ok := constVal(x.Args[0]); ok {
					if fd := t.funcs[t.fn.recv+".HasFlag"]; fd != nil && len(fd.Body.List) == 1 {
						if rs, ok := fd.Body.List[0].(*ast.ReturnStmt); ok && len(rs.Results) == 1 {
							src := exprStr(rs.Results[0])
							if src == "p.flags.Has(v)" || src == "bits(p.flags).Has(v)" {
								return fmt.Sprintf("has p.flags %d", v)
							}
						}
					}
				}
			}
		}
	}
	return "(Filler.unknownCond " + leanStr(exprStr(e)) + ")"
}

// an operand of a comparison
func (t *tr) scalar(e ast.Expr) string {
	if s, ok := t.subst[exprStr(e)]; ok {
		return s
	}
	switch x := e.(type) {
	case *ast.BasicLit:
		return x.Value
	case *ast.Ident:
		if t.locals[x.Name] == "int" {
			return x.Name
		}
	case *ast.CallExpr:
		if id, ok := x.Fun.(*ast.Ident); ok && id.Name == "len" && len(x.Args) == 1 {
			if p, ok := t.path(x.Args[0]); ok {
				return p + ".length"
			}
		}
	case *ast.SelectorExpr:
		if p, ok := t.path(x); ok {
			return p
		}
	}
	return "(Filler.unknownNat " + leanStr(exprStr(e)) + ")"
}

type blockOut struct {
	lets  []string
	items []string
	early string
}

func seqOf(items []string) string {
	if len(items) == 1 {
		return items[0]
	}
	return "Filler.seqs [" + strings.Join(items, ", ") + "]"
}

func isIdent(e ast.Expr, name string) bool {
	id, ok := e.(*ast.Ident)
	return ok && id.Name == name
}

func (t *tr) block(stmts []ast.Stmt, out *blockOut, top bool) {
	for _, s := range stmts {
		switch x := s.(type) {
		case *ast.AssignStmt:
			if len(x.Lhs) != 1 || len(x.Rhs) != 1 {
				out.items = append(out.items, unknownF(s))
				continue
			}
			lhs, _ := x.Lhs[0].(*ast.Ident)
			switch {
			case lhs == nil:
				out.items = append(out.items, unknownF(s))
			case x.Tok == token.DEFINE && lhs.Name == "n" && isIdent(x.Rhs[0], "i"):
				// n := i
			case x.Tok == token.DEFINE:
				if fl, ok := x.Rhs[0].(*ast.FuncLit); ok {
					sub := &blockOut{}
					t.block(fl.Body.List, sub, true)
					t.locals[lhs.Name] = "closure"
					out.lets = append(out.lets, fmt.Sprintf("let %s : Filler := %s", lhs.Name, assemble(sub, "    ")))
				} else {
					v := t.intExpr(x.Rhs[0])
					t.locals[lhs.Name] = "int"
					out.lets = append(out.lets, fmt.Sprintf("let %s : Nat := %s", lhs.Name, v))
				}
			case x.Tok == token.ADD_ASSIGN && lhs.Name == "i":
				out.items = append(out.items, t.item(x.Rhs[0]))
			default:
				out.items = append(out.items, unknownF(s))
			}
		case *ast.IfStmt:
			if x.Else != nil {
				out.items = append(out.items, unknownF(s))
				continue
			}
			// `if v := p.M(); cond`: substitute the accessor for v
			if x.Init != nil {
				as, ok := x.Init.(*ast.AssignStmt)
				okInit := false
				if ok && as.Tok == token.DEFINE && len(as.Lhs) == 1 && len(as.Rhs) == 1 {
					if ce, ok := as.Rhs[0].(*ast.CallExpr); ok && len(ce.Args) == 0 {
						if se, ok := ce.Fun.(*ast.SelectorExpr); ok {
							if p, ok := t.path(se.X); ok && leanAccessor[se.Sel.Name] != "" {
								t.subst[exprStr(as.Lhs[0])] = p + "." + leanAccessor[se.Sel.Name]
								okInit = true
							}
						}
					}
				}
				if !okInit {
					out.items = append(out.items, unknownF(s))
					continue
				}
			}
			c := t.cond(x.Cond)
			body := x.Body.List
			// early exit
			if len(body) == 1 {
				if rs, ok := body[0].(*ast.ReturnStmt); ok && len(rs.Results) == 1 && exprStr(rs.Results[0]) == "0" {
					if top && len(out.items) == 0 && out.early == "" {
						out.early = c
					} else {
						out.items = append(out.items, unknownF(s))
					}
					continue
				}
			}
			// only `x += e` on an int local
			allAcc := len(body) > 0
			for _, b := range body {
				as, ok := b.(*ast.AssignStmt)
				if !ok || as.Tok != token.ADD_ASSIGN || len(as.Lhs) != 1 {
					allAcc = false
					break
				}
				id, ok := as.Lhs[0].(*ast.Ident)
				if !ok || t.locals[id.Name] != "int" {
					allAcc = false
					break
				}
			}
			if allAcc {
				for _, b := range body {
					as := b.(*ast.AssignStmt)
					id := as.Lhs[0].(*ast.Ident)
					out.lets = append(out.lets, fmt.Sprintf("let %s : Nat := %s + (if %s then %s else 0)", id.Name, id.Name, c, t.intExpr(as.Rhs[0])))
				}
				continue
			}
			sub := &blockOut{}
			t.block(body, sub, false)
			out.lets = append(out.lets, sub.lets...)
			if len(sub.items) == 0 {
				out.items = append(out.items, unknownF(s))
				continue
			}
			out.items = append(out.items, fmt.Sprintf("(if %s then %s else Filler.nop)", c, seqOf(sub.items)))
		case *ast.RangeStmt:
			out.items = append(out.items, t.rangeItem(x))
		case *ast.ReturnStmt:
			if len(x.Results) == 1 && (exprStr(x.Results[0]) == "i" || exprStr(x.Results[0]) == "i-n") {
				continue
			}
			if len(x.Results) == 1 {
				if be, ok := x.Results[0].(*ast.BinaryExpr); ok && be.Op == token.SUB && isIdent(be.X, "i") && isIdent(be.Y, "n") {
					continue
				}
			}
			out.items = append(out.items, unknownF(s))
		default:
			out.items = append(out.items, unknownF(s))
		}
	}
}

func (t *tr) rangeItem(x *ast.RangeStmt) string {
	// for j[, _] := range p.F { i += <call> }
	if p, ok := t.path(x.X); ok && x.Key != nil && len(x.Body.List) == 1 {
		if as, ok := x.Body.List[0].(*ast.AssignStmt); ok && as.Tok == token.ADD_ASSIGN && len(as.Lhs) == 1 && isIdent(as.Lhs[0], "i") {
			if x.Value != nil && !isIdent(x.Value, "_") {
				return unknownF(x)
			}
			elem := exprStr(x.X) + "[" + exprStr(x.Key) + "]"
			t.subst[elem] = "x"
			it := t.item(as.Rhs[0])
			delete(t.subst, elem)
			return fmt.Sprintf("Filler.seqs (%s.map fun x => %s)", p, it)
		}
	}
	// for id, v := range p.propertyMap(..) { … i += v().fillProp(b, i, id) }: the single entry of the literal
	if ce, ok := x.X.(*ast.CallExpr); ok {
		if se, ok := ce.Fun.(*ast.SelectorExpr); ok {
			if p, ok := t.path(se.X); ok && p == "p" {
				if fd := t.funcs[t.fn.recv+"."+se.Sel.Name]; fd != nil {
					if cl := returnedMapLit(fd); cl != nil && len(cl.Elts) == 1 {
						kv := cl.Elts[0].(*ast.KeyValueExpr)
						id, okc := constVal(kv.Key)
						var ret ast.Expr
						if fl, ok := kv.Value.(*ast.FuncLit); ok {
							ast.Inspect(fl.Body, func(n ast.Node) bool {
								if rs, ok := n.(*ast.ReturnStmt); ok && len(rs.Results) == 1 && exprStr(rs.Results[0]) != "nil" {
									ret = rs.Results[0]
								}
								return true
							})
						}
						// the loop body must end in `i += <v() or out>.fillProp(b, i, id)`
						last := x.Body.List[len(x.Body.List)-1]
						as, okl := last.(*ast.AssignStmt)
						okBody := okl && as.Tok == token.ADD_ASSIGN && isIdent(as.Lhs[0], "i") && strings.HasSuffix(exprStr(as.Rhs[0]), ".fillProp(b,i,"+exprStr(x.Key)+")")
						if okc && ret != nil && okBody {
							fieldExpr := ret
							if ue, ok := fieldExpr.(*ast.UnaryExpr); ok && ue.Op == token.AND {
								fieldExpr = ue.X
							}
							fp, okp := t.path(fieldExpr)
							ft := pkg.TypesInfo.TypeOf(fieldExpr)
							if okp {
								if pt, ok := ft.(*types.Pointer); ok {
									// a pointer field: nil is skipped (`if out == nil { continue }`)
									if len(x.Body.List) >= 2 && wkind(pt.Elem()) == ".vb" {
										return fmt.Sprintf("(match %s with | some v => fillProp 0x%02x (.vb v) | none => Filler.nop)", fp, id)
									}
								} else if k := wkind(ft); !strings.HasPrefix(k, "?") && len(x.Body.List) == 1 {
									return fmt.Sprintf("fillProp 0x%02x (%s %s)", id, k, fp)
								}
							}
						}
					}
				}
			}
		}
	}
	return unknownF(x)
}

func assemble(o *blockOut, indent string) string {
	seq := "Filler.seqs [" + strings.Join(o.items, ",\n"+indent+"  ") + "]"
	if len(o.lets) == 0 && o.early == "" {
		return seq
	}
	var sb strings.Builder
	sb.WriteString("fun b i =>\n")
	for _, l := range o.lets {
		sb.WriteString(indent + l + "\n")
	}
	if o.early != "" {
		sb.WriteString(indent + "if " + o.early + " then (b, 0)\n" + indent + "else " + seq + " b i")
	} else {
		sb.WriteString(indent + seq + " b i")
	}
	return sb.String()
}

// encGen returns the text of lean/Mq/Generated/Enc.lean
func encGen() string {
	funcs := map[string]*ast.FuncDecl{}
	for i, f := range pkg.Syntax {
		if strings.HasSuffix(pkg.CompiledGoFiles[i], "_test.go") {
			continue
		}
		for _, d := range f.Decls {
			if fd, ok := d.(*ast.FuncDecl); ok {
				funcs[recvName(fd)+"."+fd.Name.Name] = fd
			}
		}
	}
	fns := map[string]*encFn{}
	var keys []string
	for k, fd := range funcs {
		r := recvName(fd)
		if leanRecvType[r] == "" || !encMethodNames[fd.Name.Name] || fd.Body == nil {
			continue
		}
		// (b []byte, i int) int
		if fd.Type.Params.NumFields() != 2 || fd.Type.Results.NumFields() != 1 {
			continue
		}
		fns[k] = &encFn{key: k, recv: r, name: fd.Name.Name, decl: fd}
		keys = append(keys, k)
	}
	sort.Strings(keys)
	for _, k := range keys {
		fn := fns[k]
		rv := "p"
		if len(fn.decl.Recv.List[0].Names) == 1 {
			rv = fn.decl.Recv.List[0].Names[0].Name
		}
		t := &tr{fn: fn, recvVar: rv, funcs: funcs, locals: map[string]string{}, subst: map[string]string{}}
		out := &blockOut{}
		t.block(fn.decl.Body.List, out, true)
		fn.body = assemble(out, "  ")
	}
	// the will parameter propagates to callers
	for changed := true; changed; {
		changed = false
		for _, k := range keys {
			for _, c := range fns[k].callees {
				if fns[c] != nil && fns[c].usesWill && !fns[k].usesWill {
					fns[k].usesWill = true
					changed = true
				}
			}
		}
	}
	// callees first
	var order []string
	done := map[string]bool{}
	var visit func(k string)
	visit = func(k string) {
		if done[k] || fns[k] == nil {
			return
		}
		done[k] = true
		cs := append([]string{}, fns[k].callees...)
		sort.Strings(cs)
		for _, c := range cs {
			visit(c)
		}
		order = append(order, k)
	}
	for _, k := range keys {
		visit(k)
	}
	var sb strings.Builder
	sb.WriteString("import Mq.Fill\n")
	sb.WriteString("/-! GENERATED by /verif/extract (mqextract, encgen.go) from /repo's source — do not edit; rewritten on every run.\n")
	sb.WriteString("The encoder methods of every packet type, translated statement by statement. -/\n")
	sb.WriteString("namespace Mq.Gen\n\n")
	for _, k := range order {
		fn := fns[k]
		body := fn.body
		for _, c := range keys {
			w := ""
			if fns[c].usesWill {
				w = " will"
			}
			body = strings.ReplaceAll(body, "«WILL:"+c+"»", w)
		}
		// parenthesise applications used as list items
		params := "(p : Mq." + leanRecvType[fn.recv] + ")"
		if fn.usesWill {
			params += " (will : Mq.Publish)"
		}
		pos := fset.Position(fn.decl.Pos())
		fmt.Fprintf(&sb, "/-- `%s` (%s) -/\ndef %s %s : Filler :=\n  %s\n\n", k, pos.Filename[strings.LastIndex(pos.Filename, "/")+1:], k, params, body)
	}
	sb.WriteString("/-- the translated methods, for the record -/\n")
	fmt.Fprintf(&sb, "def translated : List String := [%s]\n\n", quoteAll(order))
	sb.WriteString("end Mq.Gen\n")
	return sb.String()
}
