// decgen — translates the decoder methods of /repo (`UnmarshalBinary` of every packet type, together
// with the `propertyMap`/`willPropertyMap` literals they hand to `getAny`) into Lean definitions over
// the `Stage` combinators of Mq/Stage.lean: lean/Mq/Generated/Dec.lean, regenerated on every run.
// Proofs/Tie/Dec.lean proves the result equal to the hand-written decoders the theorems are about.
//
// Understood:
//
//	b := &buffer{data: data[, addSubscriptionID: p.AddSubscriptionID]}   the cursor (the hook is recorded)
//	get := b.get                                                          alias
//	b.get(&p.f) / get(&p.f)                                               Stage.get, decoder by the field's wire type
//	b.getAny(p.someMap(..) | nil, p.appendUserProperty)                   Stage.props with the translated map literal
//	if p.flags.Has(K) | v := p.QoS(); v == 1 || v == 2 | len(data) > N | len(data) > b.i { … }   Stage.when
//	return b.err | return b.Err() | return nil
//
// and four idioms matched on their exact (normalised) source text: the CONNECT will block, the
// SUBSCRIBE and UNSUBSCRIBE filter loops, the SUBACK/UNSUBACK reason-code loop, the copy in Undefined.
// Anything else becomes `Stage.unknown "<source>"`, which compiles and makes the tie theorem fail.
package main

import (
	"bytes"
	"fmt"
	"go/ast"
	"go/printer"
	"go/token"
	"go/types"
	"os"
	"regexp"
	"sort"
	"strings"
)

var leanDecRecv = map[string]string{
	"Connect": "Connect", "ConnAck": "ConnAck", "Publish": "Publish",
	"PubAck": "Ack", "PubRec": "Ack", "PubRel": "Ack", "PubComp": "Ack",
	"Subscribe": "Subscribe", "SubAck": "SubAck", "UnsubAck": "SubAck", "Unsubscribe": "Unsubscribe",
	"PingReq": "Ping", "PingResp": "Ping", "Disconnect": "Disconnect", "Auth": "Auth",
	"Undefined": "Undefined",
}

var spaceRe = regexp.MustCompile(`\s+`)

func srcOf(n ast.Node) string {
	var buf bytes.Buffer
	printer.Fprint(&buf, fset, n)
	return strings.TrimSpace(spaceRe.ReplaceAllString(buf.String(), " "))
}

type mapEntry struct {
	id      int64
	path    string // Lean path relative to the receiver: "receiveMax", "will.contentType"
	kind    string // ".u16" …
	pointer bool
}

// the entries of the map literal a propertyMap-like method returns, in source order
func mapEntries(fd *ast.FuncDecl) ([]mapEntry, bool) {
	cl := returnedMapLit(fd)
	if cl == nil {
		return nil, false
	}
	rv := "p"
	if len(fd.Recv.List[0].Names) == 1 {
		rv = fd.Recv.List[0].Names[0].Name
	}
	var out []mapEntry
	for _, el := range cl.Elts {
		kv, ok := el.(*ast.KeyValueExpr)
		if !ok {
			return nil, false
		}
		id, okc := constVal(kv.Key)
		fl, okf := kv.Value.(*ast.FuncLit)
		if !okc || !okf {
			return nil, false
		}
		var ret ast.Expr
		ast.Inspect(fl.Body, func(n ast.Node) bool {
			if rs, ok := n.(*ast.ReturnStmt); ok && len(rs.Results) == 1 && exprStr(rs.Results[0]) != "nil" {
				ret = rs.Results[0]
			}
			return true
		})
		if ret == nil {
			return nil, false
		}
		e := ret
		if ue, ok := e.(*ast.UnaryExpr); ok && ue.Op == token.AND {
			e = ue.X
		}
		s := exprStr(e)
		if !strings.HasPrefix(s, rv+".") {
			return nil, false
		}
		t := pkg.TypesInfo.TypeOf(e)
		ptr := false
		if pt, ok := t.(*types.Pointer); ok {
			t = pt.Elem()
			ptr = true
		}
		k := wkind(t)
		if strings.HasPrefix(k, "?") {
			return nil, false
		}
		out = append(out, mapEntry{id: id, path: strings.TrimPrefix(s, rv+"."), kind: k, pointer: ptr})
	}
	return out, true
}

var kindOrder = []string{".u8", ".u16", ".u32", ".bool", ".bin", ".vb"}

// `apply`: what one decoded occurrence does to the packet, from the map entries, the user-property adder
// and the subscription-identifier hook of the buffer
func applyDef(name, leanTy string, ents []mapEntry, userProps bool, subIDHook bool) string {
	var sb strings.Builder
	fmt.Fprintf(&sb, "def %s (p : Mq.%s) (o : PropOcc) : Mq.%s :=\n  match o.val with\n", name, leanTy, leanTy)
	for _, k := range kindOrder {
		var arms []string
		for _, e := range ents {
			if e.kind != k {
				continue
			}
			v := "v"
			if e.pointer {
				v = "some v"
			}
			arms = append(arms, fmt.Sprintf("if o.id = 0x%02x then { p with %s := %s }", e.id, e.path, v))
		}
		if k == ".vb" && subIDHook {
			arms = append(arms, "if o.id = 0x0b then { p with subscriptionIDs := p.subscriptionIDs ++ [UInt32.ofNat v] }")
		}
		if len(arms) == 0 {
			continue
		}
		fmt.Fprintf(&sb, "  | %s v => %s else p\n", k, strings.Join(arms, "\n    else "))
	}
	if userProps {
		sb.WriteString("  | .pair k v => if o.id = 0x26 then { p with userProps := p.userProps ++ [(k, v)] } else p\n")
	}
	sb.WriteString("  | _ => p\n")
	return sb.String()
}

// the will property map acts on (will delay interval, will message)
func applyWillDef(name string, ents []mapEntry) (string, bool) {
	var sb strings.Builder
	fmt.Fprintf(&sb, "def %s (s : UInt32 × Mq.Publish) (o : PropOcc) : UInt32 × Mq.Publish :=\n  match o.val with\n", name)
	for _, k := range kindOrder {
		var arms []string
		for _, e := range ents {
			if e.kind != k {
				continue
			}
			switch {
			case e.path == "willDelayInterval":
				arms = append(arms, fmt.Sprintf("if o.id = 0x%02x then (v, s.2)", e.id))
			case strings.HasPrefix(e.path, "will.") && !strings.Contains(e.path[5:], "."):
				arms = append(arms, fmt.Sprintf("if o.id = 0x%02x then (s.1, { s.2 with %s := v })", e.id, e.path[5:]))
			default:
				return "", false
			}
		}
		if len(arms) == 0 {
			continue
		}
		fmt.Fprintf(&sb, "  | %s v => %s else s\n", k, strings.Join(arms, "\n    else "))
	}
	sb.WriteString("  | .pair k v => if o.id = 0x26 then (s.1, { s.2 with userProps := s.2.userProps ++ [(k, v)] }) else s\n")
	sb.WriteString("  | _ => s\n")
	return sb.String(), true
}

func tableDef(name string, ents []mapEntry) string {
	var xs []string
	for _, e := range ents {
		xs = append(xs, fmt.Sprintf("(0x%02x, %s)", e.id, e.kind))
	}
	return fmt.Sprintf("def %s : PropTable := [%s]\n", name, strings.Join(xs, ", "))
}

func binInitDef(name, leanTy string, ents []mapEntry) string {
	var sb strings.Builder
	fmt.Fprintf(&sb, "def %s (p : Mq.%s) (id : UInt8) : Bytes :=\n  ", name, leanTy)
	for _, e := range ents {
		if e.kind == ".bin" {
			fmt.Fprintf(&sb, "if id = 0x%02x then p.%s else ", e.id, e.path)
		}
	}
	sb.WriteString("[]\n")
	return sb.String()
}

type decTr struct {
	recv    string // Go type
	leanTy  string
	funcs   map[string]*ast.FuncDecl
	bufVar  string
	getVar  string // alias of b.get
	subHook bool
	defs    []string // auxiliary definitions, emitted before the unmarshal function
	nApply  int
}

func (t *decTr) unknown(n ast.Node) string {
	return "Stage.unknown " + leanStr(srcOf(n))
}

// get(&p.f) / b.get(&p.f): returns the field expression
func (t *decTr) isGet(s ast.Stmt) (ast.Expr, bool) {
	es, ok := s.(*ast.ExprStmt)
	if !ok {
		return nil, false
	}
	ce, ok := es.X.(*ast.CallExpr)
	if !ok || len(ce.Args) != 1 {
		return nil, false
	}
	f := exprStr(ce.Fun)
	if f != t.bufVar+".get" && (t.getVar == "" || f != t.getVar) {
		return nil, false
	}
	ue, ok := ce.Args[0].(*ast.UnaryExpr)
	if !ok || ue.Op != token.AND {
		return nil, false
	}
	return ue.X, true
}

func (t *decTr) getStage(field ast.Expr) string {
	s := exprStr(field)
	if !strings.HasPrefix(s, "p.") || strings.Count(s, ".") != 1 {
		return ""
	}
	f := s[2:]
	dec := ""
	switch namedName(pkg.TypesInfo.TypeOf(field)) {
	case "wstring", "bindata":
		dec = "fun p => decBin p." + f
	case "rawdata":
		dec = "fun _ => decRaw"
	case "wuint16":
		dec = "fun _ => decU16"
	case "wuint32":
		dec = "fun _ => decU32"
	case "wbool":
		dec = "fun _ => decBool"
	case "wuint8", "bits", "byte", "uint8", "connectFlags":
		dec = "fun _ => decU8"
	default:
		return ""
	}
	return fmt.Sprintf("Stage.get (%s) (·.%s) (fun p v => { p with %s := v })", dec, f, f)
}

// b.getAny(<map>, <adder>)
func (t *decTr) isGetAny(s ast.Stmt) (*ast.CallExpr, bool) {
	es, ok := s.(*ast.ExprStmt)
	if !ok {
		return nil, false
	}
	ce, ok := es.X.(*ast.CallExpr)
	if !ok || len(ce.Args) != 2 || exprStr(ce.Fun) != t.bufVar+".getAny" {
		return nil, false
	}
	return ce, true
}

func (t *decTr) propsStage(ce *ast.CallExpr) string {
	if exprStr(ce.Args[1]) != "p.appendUserProperty" {
		return ""
	}
	// the adder must be the promoted UserProperties.appendUserProperty, which appends
	if ad := t.funcs["UserProperties.appendUserProperty"]; ad == nil || len(ad.Body.List) != 1 || srcOf(ad.Body.List[0]) != "*p = append(*p, prop)" {
		return ""
	}
	if t.funcs[t.recv+".appendUserProperty"] != nil {
		return ""
	}
	var ents []mapEntry
	mname := "nil"
	if exprStr(ce.Args[0]) != "nil" {
		mc, ok := ce.Args[0].(*ast.CallExpr)
		if !ok {
			return ""
		}
		se, ok := mc.Fun.(*ast.SelectorExpr)
		if !ok || exprStr(se.X) != "p" {
			return ""
		}
		fd := t.funcs[t.recv+"."+se.Sel.Name]
		if fd == nil {
			return ""
		}
		var okm bool
		ents, okm = mapEntries(fd)
		if !okm {
			return ""
		}
		mname = se.Sel.Name
	}
	for _, e := range ents {
		if strings.Contains(e.path, ".") {
			return ""
		}
	}
	base := "Mq.Gen." + t.recv + "." + mname
	t.defs = append(t.defs, tableDef(t.recv+"."+mname+".table", ents), binInitDef(t.recv+"."+mname+".binInit", t.leanTy, ents),
		applyDef(t.recv+"."+mname+".apply", t.leanTy, ents, true, t.subHook))
	return fmt.Sprintf("Stage.props %s.table (fun p => lastBin (%s.binInit p)) %s.apply", base, base, base)
}

func (t *decTr) cond(init ast.Stmt, e ast.Expr) string {
	s := exprStr(e)
	if init != nil {
		if srcOf(init) == "v := p.QoS()" && s == "v==1||v==2" {
			return "fun s => (s.2.qos == 1 || s.2.qos == 2) = true"
		}
		// exprStr prints binary expressions as "?"; fall through to the structured match
		if be, ok := e.(*ast.BinaryExpr); ok && srcOf(init) == "v := p.QoS()" && srcOf(be) == "v == 1 || v == 2" {
			return "fun s => (s.2.qos == 1 || s.2.qos == 2) = true"
		}
		return ""
	}
	if ce, ok := e.(*ast.CallExpr); ok && len(ce.Args) == 1 {
		if se, ok := ce.Fun.(*ast.SelectorExpr); ok && se.Sel.Name == "Has" {
			r := exprStr(se.X)
			if r == "p.flags" || r == "bits(p.flags)" {
				if v, ok := constVal(ce.Args[0]); ok {
					return fmt.Sprintf("fun s => has s.2.flags %d = true", v)
				}
			}
		}
	}
	if be, ok := e.(*ast.BinaryExpr); ok && be.Op == token.GTR && exprStr(be.X) == "len(data)" {
		if lit, ok := be.Y.(*ast.BasicLit); ok && lit.Kind == token.INT {
			return "fun _ => data.length > " + lit.Value
		}
		if exprStr(be.Y) == t.bufVar+".i" {
			return "fun s => s.1.rest ≠ []"
		}
	}
	return ""
}

const willBlockSrc = "p.will = NewPublish()|p.will.SetQoS(p.willQoS())|p.will.SetRetain(p.flags.Has(WillRetain))|GETANY|GET p.will.topicName|GET p.willPayload|p.will.payload = rawdata(p.willPayload)"

// the CONNECT will block as a whole
func (t *decTr) willBlock(body []ast.Stmt) string {
	var parts []string
	var ga *ast.CallExpr
	for _, s := range body {
		if f, ok := t.isGet(s); ok {
			parts = append(parts, "GET "+exprStr(f))
		} else if ce, ok := t.isGetAny(s); ok {
			parts = append(parts, "GETANY")
			ga = ce
		} else {
			parts = append(parts, srcOf(s))
		}
	}
	if strings.Join(parts, "|") != willBlockSrc || ga == nil {
		if len(parts) > 3 && os.Getenv("MQEXTRACT_DEBUG") != "" {
			fmt.Fprintln(os.Stderr, "will block mismatch:", strings.Join(parts, "|"))
		}
		return ""
	}
	if exprStr(ga.Args[0]) != "p.willPropertyMap()" || exprStr(ga.Args[1]) != "p.appendWillProperty" {
		return ""
	}
	fd := t.funcs[t.recv+".willPropertyMap"]
	if fd == nil {
		return ""
	}
	ents, ok := mapEntries(fd)
	if !ok {
		return ""
	}
	ap, ok := applyWillDef(t.recv+".willPropertyMap.apply", ents)
	if !ok {
		return ""
	}
	// appendWillProperty must append to the will's user properties
	if ad := t.funcs[t.recv+".appendWillProperty"]; ad == nil || len(ad.Body.List) != 1 || srcOf(ad.Body.List[0]) != "p.will.UserProperties = append(p.will.UserProperties, prop)" {
		return ""
	}
	t.defs = append(t.defs, tableDef(t.recv+".willPropertyMap.table", ents), ap)
	return "Connect.willBlock Mq.Gen." + t.recv + ".willPropertyMap.table Mq.Gen." + t.recv + ".willPropertyMap.apply"
}

var loopIdioms = map[string]string{
	"for { var L0 TopicFilter B.get(&L0.filter) B.get(&L0.options) p.filters = append(p.filters, L0) if B.err != nil || B.i == len(data) { break } }": "Subscribe.filterStage data",
	"for { var L0 wstring B.get(&L0) p.filters = append(p.filters, L0) if B.err != nil || B.i == len(data) { break } }":                                   "Unsubscribe.filterStage data",
}

const codesIdiom = "p.reasonCodes = make([]uint8, len(data)-B.i)|for L0, _ := range p.reasonCodes { var L1 wuint8 B.get(&L1) p.reasonCodes[L0] = uint8(L1) }"

// the source of a node with the cursor variable written B and the local variables declared inside the node
// renamed L0, L1, … in order of declaration (an idiom is recognised up to the names of its locals)
func (t *decTr) norm(n ast.Node) string {
	type def struct {
		pos token.Pos
		obj types.Object
	}
	var defs []def
	for id, obj := range pkg.TypesInfo.Defs {
		if obj == nil || id.Pos() < n.Pos() || id.Pos() >= n.End() {
			continue
		}
		if v, ok := obj.(*types.Var); ok && !v.IsField() && id.Name != "_" {
			defs = append(defs, def{id.Pos(), obj})
		}
	}
	sort.Slice(defs, func(i, j int) bool { return defs[i].pos < defs[j].pos })
	names := map[types.Object]string{}
	for i, d := range defs {
		names[d.obj] = fmt.Sprintf("L%d", i)
	}
	var renamed []*ast.Ident
	var old []string
	ast.Inspect(n, func(x ast.Node) bool {
		if id, ok := x.(*ast.Ident); ok {
			obj := pkg.TypesInfo.Defs[id]
			if obj == nil {
				obj = pkg.TypesInfo.Uses[id]
			}
			if nm, ok := names[obj]; ok && obj != nil {
				renamed = append(renamed, id)
				old = append(old, id.Name)
				id.Name = nm
			}
		}
		return true
	})
	s := srcOf(n)
	for i, id := range renamed {
		id.Name = old[i]
	}
	if t.bufVar != "" {
		s = regexp.MustCompile(`\b`+regexp.QuoteMeta(t.bufVar)+`\.`).ReplaceAllString(s, "B.")
	}
	return s
}

func (t *decTr) stages(stmts []ast.Stmt) []string {
	var out []string
	for i := 0; i < len(stmts); i++ {
		s := stmts[i]
		if f, ok := t.isGet(s); ok {
			if st := t.getStage(f); st != "" {
				out = append(out, st)
			} else {
				out = append(out, t.unknown(s))
			}
			continue
		}
		if ce, ok := t.isGetAny(s); ok {
			if st := t.propsStage(ce); st != "" {
				out = append(out, st)
			} else {
				out = append(out, t.unknown(s))
			}
			continue
		}
		switch x := s.(type) {
		case *ast.IfStmt:
			c := ""
			if x.Else == nil {
				c = t.cond(x.Init, x.Cond)
			}
			if c == "" {
				out = append(out, t.unknown(s))
				continue
			}
			if wb := t.willBlock(x.Body.List); wb != "" {
				out = append(out, fmt.Sprintf("Stage.when (%s) [%s]", c, wb))
				continue
			}
			out = append(out, fmt.Sprintf("Stage.when (%s) [%s]", c, strings.Join(t.stages(x.Body.List), ",\n      ")))
		case *ast.ForStmt:
			if st, ok := loopIdioms[t.norm(x)]; ok {
				out = append(out, st)
			} else {
				out = append(out, t.unknown(s))
			}
		case *ast.AssignStmt:
			// the reason-code idiom: make + range loop
			if os.Getenv("MQEXTRACT_DEBUG") != "" && i+1 < len(stmts) {
				fmt.Fprintln(os.Stderr, "codes idiom candidate:", t.norm(x)+"|"+t.norm(stmts[i+1]))
			}
			if i+1 < len(stmts) && t.norm(x)+"|"+t.norm(stmts[i+1]) == codesIdiom {
				out = append(out, "SubAck.codesStage")
				i++
				continue
			}
			out = append(out, t.unknown(s))
		default:
			out = append(out, t.unknown(s))
		}
	}
	return out
}

func decGen() string {
	funcs := map[string]*ast.FuncDecl{}
	for i, f := range pkg.Syntax {
		if strings.HasSuffix(pkg.CompiledGoFiles[i], "_test.go") {
			continue
		}
		for _, d := range f.Decls {
			if fd, ok := d.(*ast.FuncDecl); ok {
				funcs[recvName(fd)+"."+fd.Name.Name] = fd
			}
		}
	}
	var keys []string
	for k, fd := range funcs {
		if fd.Name.Name == "UnmarshalBinary" && leanDecRecv[recvName(fd)] != "" && fd.Body != nil {
			keys = append(keys, k)
		}
	}
	sort.Strings(keys)
	var sb strings.Builder
	sb.WriteString("import Mq.Stage\n")
	sb.WriteString("/-! GENERATED by /verif/extract (mqextract, decgen.go) from /repo's source — do not edit; rewritten on every run.\n")
	sb.WriteString("`UnmarshalBinary` of every packet type with the property-map literals it uses, translated statement by statement. -/\n")
	sb.WriteString("namespace Mq.Gen\n\n")
	var names []string
	for _, k := range keys {
		fd := funcs[k]
		recv := recvName(fd)
		t := &decTr{recv: recv, leanTy: leanDecRecv[recv], funcs: funcs}
		if len(fd.Recv.List[0].Names) != 1 || fd.Recv.List[0].Names[0].Name != "p" ||
			fd.Type.Params.NumFields() != 1 || len(fd.Type.Params.List[0].Names) != 1 || fd.Type.Params.List[0].Names[0].Name != "data" {
			fmt.Fprintf(&sb, "def %s.unmarshal (p : Mq.%s) (data : Bytes) : Mq.%s × St :=\n  Stage.run [Stage.unknown %s] p data\n\n", recv, t.leanTy, t.leanTy, leanStr("receiver/parameter names"))
			continue
		}
		body := fd.Body.List
		var stages []string
		// prologue
		idx := 0
		if len(body) > 0 {
			if as, ok := body[0].(*ast.AssignStmt); ok && as.Tok == token.DEFINE && len(as.Lhs) == 1 && len(as.Rhs) == 1 {
				src := srcOf(as.Rhs[0])
				name := exprStr(as.Lhs[0])
				switch src {
				case "&buffer{data: data}":
					t.bufVar = name
					idx = 1
				case "&buffer{data: data, addSubscriptionID: p.AddSubscriptionID}", "&buffer{ data: data, addSubscriptionID: p.AddSubscriptionID, }":
					// the hook must append to the subscription identifiers
					if ad := funcs[recv+".AddSubscriptionID"]; ad != nil && len(ad.Body.List) == 1 && srcOf(ad.Body.List[0]) == "p.subscriptionIDs = append(p.subscriptionIDs, v)" {
						t.bufVar = name
						t.subHook = true
						idx = 1
					}
				}
			}
		}
		if idx < len(body) {
			if as, ok := body[idx].(*ast.AssignStmt); ok && as.Tok == token.DEFINE && len(as.Lhs) == 1 && srcOf(as.Rhs[0]) == t.bufVar+".get" && t.bufVar != "" {
				t.getVar = exprStr(as.Lhs[0])
				idx++
			}
		}
		// epilogue
		end := len(body)
		okRet := false
		if end > 0 {
			if rs, ok := body[end-1].(*ast.ReturnStmt); ok && len(rs.Results) == 1 {
				r := srcOf(rs.Results[0])
				if t.bufVar != "" && (r == t.bufVar+".err" || r == t.bufVar+".Err()") {
					okRet = true
				}
				if t.bufVar == "" && r == "nil" {
					okRet = true
				}
			}
		}
		if !okRet {
			stages = append(stages, "Stage.unknown "+leanStr("return statement"))
		} else {
			end--
		}
		mid := body[idx:end]
		if t.bufVar == "" && len(mid) == 2 && srcOf(mid[0])+"|"+srcOf(mid[1]) == "p.data = make([]byte, len(data))|copy(p.data, data)" {
			stages = append(stages, "Stage.pureSet (fun p => { p with data := data })")
		} else if t.bufVar == "" && len(mid) > 0 {
			stages = append(stages, "Stage.unknown "+leanStr("statements without a buffer"))
		} else {
			stages = append(t.stages(mid), stages...)
		}
		seen := map[string]bool{}
		for _, d := range t.defs {
			if !seen[d] {
				seen[d] = true
				sb.WriteString(d + "\n")
			}
		}
		pos := fset.Position(fd.Pos())
		fmt.Fprintf(&sb, "/-- `%s` (%s) -/\ndef %s.unmarshal (p : Mq.%s) (data : Bytes) : Mq.%s × St :=\n  Stage.run [\n    %s] p data\n\n",
			k, pos.Filename[strings.LastIndex(pos.Filename, "/")+1:], recv, t.leanTy, t.leanTy, strings.Join(stages, ",\n    "))
		names = append(names, k)
	}
	sb.WriteString(dispatchGen(funcs))
	fmt.Fprintf(&sb, "def translatedDecoders : List String := [%s]\n\nend Mq.Gen\n", quoteAll(names))
	return sb.String()
}

var leanCtor = map[string]string{
	"Connect": "connect", "ConnAck": "connack", "Publish": "publish", "PubAck": "puback", "PubRec": "pubrec",
	"PubRel": "pubrel", "PubComp": "pubcomp", "Subscribe": "subscribe", "SubAck": "suback", "Unsubscribe": "unsubscribe",
	"UnsubAck": "unsuback", "PingReq": "pingreq", "PingResp": "pingresp", "Disconnect": "disconnect", "Auth": "auth",
}

// the type switch that selects the packet type from the first byte, wherever it lives:
// `switch byte(X) & 0xf0 { case K: p = &T{fixed: X} | return &T{fixed: X} … default: … &Undefined{} }`
func dispatchGen(funcs map[string]*ast.FuncDecl) string {
	bad := func(why string) string {
		return "def dispatch (b0 : UInt8) : Mq.Packet := (fun (_ : String) => Mq.Packet.undefined { fixed := b0 }) " + leanStr(why) + "\n\n"
	}
	var sw *ast.SwitchStmt
	var swFn *ast.FuncDecl
	var keys []string
	for k := range funcs {
		keys = append(keys, k)
	}
	sort.Strings(keys)
	for _, k := range keys {
		fd := funcs[k]
		if fd.Body == nil {
			continue
		}
		ast.Inspect(fd.Body, func(n ast.Node) bool {
			x, ok := n.(*ast.SwitchStmt)
			if !ok || x.Tag == nil || x.Init != nil {
				return true
			}
			if be, ok := x.Tag.(*ast.BinaryExpr); ok && be.Op == token.AND && strings.HasPrefix(exprStr(be.X), "byte(") && len(x.Body.List) >= 15 {
				if sw == nil {
					sw = x
					swFn = fd
				}
			}
			return true
		})
	}
	if sw == nil {
		return bad("no type switch on the first byte found")
	}
	be := sw.Tag.(*ast.BinaryExpr)
	subject := strings.TrimSuffix(strings.TrimPrefix(exprStr(be.X), "byte("), ")")
	mask, okm := constVal(be.Y)
	if !okm {
		return bad("switch mask")
	}
	var sb strings.Builder
	sb.WriteString("/-- the type switch of `fixedHeader.ReadRemaining` (packet.go) -/\ndef dispatch (b0 : UInt8) : Mq.Packet :=\n  ")
	def := ""
	for _, c := range sw.Body.List {
		cc := c.(*ast.CaseClause)
		if len(cc.Body) != 1 {
			return bad("case body " + srcOf(cc))
		}
		rhs := ""
		switch st := cc.Body[0].(type) {
		case *ast.AssignStmt:
			if st.Tok == token.ASSIGN && len(st.Lhs) == 1 && len(st.Rhs) == 1 {
				if _, ok := st.Lhs[0].(*ast.Ident); ok {
					rhs = srcOf(st.Rhs[0])
				}
			}
		case *ast.ReturnStmt:
			if len(st.Results) == 1 {
				rhs = srcOf(st.Results[0])
			}
		}
		if rhs == "" {
			return bad("case body " + srcOf(cc))
		}
		if cc.List == nil {
			if rhs != "&Undefined{}" {
				return bad("default " + rhs)
			}
			def = "Mq.Packet.undefined {}"
			continue
		}
		if len(cc.List) != 1 {
			return bad("case list " + srcOf(cc))
		}
		k, okk := constVal(cc.List[0])
		m := regexp.MustCompile(`^&([A-Za-z]+)\{fixed: (.+)\}$`).FindStringSubmatch(rhs)
		if !okk || m == nil || leanCtor[m[1]] == "" || m[2] != subject {
			return bad("case " + srcOf(cc))
		}
		fmt.Fprintf(&sb, "if b0 &&& %d = %d then Mq.Packet.%s { fixed := b0 }\n  else ", mask, k, leanCtor[m[1]])
	}
	if def == "" && swFn != nil {
		// no default clause: the switch is followed, at the top level of its function, by `return &Undefined{}`
		body := swFn.Body.List
		for i, st := range body {
			if st == ast.Stmt(sw) && i+1 < len(body) {
				if rs, ok := body[i+1].(*ast.ReturnStmt); ok && len(rs.Results) == 1 && srcOf(rs.Results[0]) == "&Undefined{}" {
					def = "Mq.Packet.undefined {}"
				}
			}
		}
	}
	if def == "" {
		return bad("no default")
	}
	sb.WriteString(def + "\n\n")
	return sb.String()
}
