// wiregen — renders the small, guard-and-store methods of the wire types in wiretypes.go (`fill`, `width`, the zero
// test of `fillProp`, and `UnmarshalBinary` of the fixed-size types) into Lean: lean/Mq/Generated/Wire.lean.
// Proofs/Tie/Wire.lean proves them equal to the hand-written wire layer of the model (Mq/Fill.lean, Mq/Wire.lean) —
// the guards (`len(data) >= i+2`, `len(data) < 4`), the widths and the zero tests are where off-by-one changes live.
//
// Each method is matched, after renaming receiver and parameters to v / data / i, against a handful of shapes; the
// numbers and comparison operators in them are captured, not assumed. A method of another shape makes the family
// `Wire` unavailable for the run (no alarm). Not rendered at all (hand model + correspondence only): the loops of
// `vbint`, `UserProp`, `bindata.UnmarshalBinary`, `rawdata.UnmarshalBinary`, the streaming `ReadFrom`s.
package main

import (
	"fmt"
	"go/ast"
	"go/types"
	"regexp"
	"sort"
	"strings"
)

// source of a method body with receiver and parameters renamed to v, data, i, id
func wireBody(fd *ast.FuncDecl) string {
	rename := map[types.Object]string{}
	if len(fd.Recv.List) == 1 && len(fd.Recv.List[0].Names) == 1 {
		rename[pkg.TypesInfo.Defs[fd.Recv.List[0].Names[0]]] = "v"
	}
	canon := []string{"data", "i", "id"}
	k := 0
	for _, fl := range fd.Type.Params.List {
		for _, n := range fl.Names {
			if k < len(canon) {
				rename[pkg.TypesInfo.Defs[n]] = canon[k]
			}
			k++
		}
	}
	var ids []*ast.Ident
	var old []string
	ast.Inspect(fd.Body, func(x ast.Node) bool {
		if id, ok := x.(*ast.Ident); ok {
			obj := pkg.TypesInfo.Uses[id]
			if obj == nil {
				obj = pkg.TypesInfo.Defs[id]
			}
			if nm, ok := rename[obj]; ok && obj != nil {
				ids = append(ids, id)
				old = append(old, id.Name)
				id.Name = nm
			}
		}
		return true
	})
	var parts []string
	for _, s := range fd.Body.List {
		parts = append(parts, srcOf(s))
	}
	for i, id := range ids {
		id.Name = old[i]
	}
	return strings.Join(parts, " ; ")
}

var (
	reFillFixed = regexp.MustCompile(`^if len\(data\) (>=|>) i\+(\d+|v\.width\(\)) \{ (.*) \} ; return (\d+|v\.width\(\))$`)
	reFillRaw   = regexp.MustCompile(`^if len\(data\) (>=|>) i\+v\.width\(\) \{ return copy\(data\[i:\], \[\]byte\(v\)\) \} ; return v\.width\(\)$`)
	reFillProp  = regexp.MustCompile(`^if (.*) \{ return \d+ \} ; n := i ; i \+= id\.fill\(data, i\) ; i \+= v\.fill\(data, i\) ; return i (?:-|\+) n$`)
	// what fillProp returns for the zero value, and how it forms its result (rendered as written)
	reFillPropTail = regexp.MustCompile(`\{ return (\d+) \} ; n := i ; .* ; return i (-|\+) n$`)
	reDecFixed  = regexp.MustCompile(`^if len\(data\) (<|<=) (\d+) \{ return unmarshalErr\(v, "", "missing data"\) \} ; \*v = (\w+)\(binary\.BigEndian\.Uint(16|32)\(data\)\) ; return nil$`)
	reDecByte   = regexp.MustCompile(`^\*v = (\w+)\(data\[0\]\) ; return nil$`)
	reDecBin = regexp.MustCompile(`^var (\w+) wuint16 ; _ = (\w+)\.UnmarshalBinary\(data\) ; if len\(data\) (<|<=) int\((\w+)\)\+(\d+) \{ return unmarshalErr\(v, "", "missing data"\) \} ; ` +
		`if (\w+) (?:==|!=|<=|>=|<|>) 0 \{ return nil \} ; \*v = make\(\[\]byte, (\w+)\) ; copy\(\*v, data\[(\d+):int\((\w+)\)\+(\d+)\]\) ; return nil$`)
	reDecVb = regexp.MustCompile(`^if len\(data\) (?:==|!=|<=|>=|<|>) 0 \{ return unmarshalErr\(v, "", "missing data"\) \} ; var (\w+) uint = 1 ; var (\w+) uint ; ` +
		`for _, (\w+) := range data \{ (\w+) \+= uint\((\w+)\) & uint\((\d+)\) \* (\w+) if (\w+) (>|>=) ([\d\*]+) \{ return unmarshalErr\(v, "", "size exceeded"\) \} ` +
		`if (\w+)&(\d+) (?:==|!=|<=|>=|<|>) 0 \{ \*v = vbint\((\w+)\) return nil \} (\w+) = (\w+) \* (\d+) \} ; return unmarshalErr\(v, "", "missing data"\)$`)
	reDecPair = regexp.MustCompile(`^var (\w+) wstring ; if err := (\w+)\.UnmarshalBinary\(data\); err (?:!=|==) nil \{ return unmarshalErr\(v, "key", err\.\(\*Malformed\)\) \} ; v\[0\] = string\((\w+)\) ; ` +
		`(\w+) := len\(v\[0\]\) \+ (\d+) ; var (\w+) wstring ; if err := (\w+)\.UnmarshalBinary\(data\[(\w+):\]\); err (?:!=|==) nil \{ return unmarshalErr\(v, "value", err\.\(\*Malformed\)\) \} ; ` +
		`v\[1\] = string\((\w+)\) ; return nil$`)
	reFillVb = regexp.MustCompile(`^(\w+) := v ; (\w+) := i ; for \{ (\w+) := byte\((\w+) % (\d+)\) (\w+) = (\w+) / (\d+) if (\w+) (?:==|!=|<=|>=|<|>) 0 \{ (\w+) = (\w+) \| (\d+) \} ` +
		`if i (?:==|!=|<=|>=|<|>) len\(data\) \{ data\[i\] = (\w+) \} i\+\+ if (\w+) (?:==|!=|<=|>=|<|>) 0 \{ break \} \} ; return i - (\w+)$`)
	// the comparison operators of the three tests inside the loop of vbint.fill (rendered as written)
	reFillVbOps = regexp.MustCompile(`if \w+ (==|!=|<=|>=|<|>) 0 \{ \w+ = \w+ \| \d+ \} if i (==|!=|<=|>=|<|>) len\(data\) \{ data\[i\] = \w+ \} i\+\+ if \w+ (==|!=|<=|>=|<|>) 0 \{ break \}`)
	// … of vbint.UnmarshalBinary: the empty-input test and the continuation-bit test
	reDecVbOps = regexp.MustCompile(`^if len\(data\) (==|!=|<=|>=|<|>) 0 .* if \w+&\d+ (==|!=|<=|>=|<|>) 0 \{ \*v = `)
	// … of bindata.UnmarshalBinary: the zero-length test
	reDecBinOps = regexp.MustCompile(`\} ; if \w+ (==|!=|<=|>=|<|>) 0 \{ return nil \} ; `)
	reDecBool   = regexp.MustCompile(`^switch data\[0\] \{ case (\d+): \*v = wbool\(false\) case (\d+): \*v = wbool\(true\) default: return fmt\.Errorf\("malformed bool"\) \} ; return nil$`)
)

type wireTy struct {
	lean   string // Lean type of the value
	kind   string // WVal constructor, "" if it cannot be a property
	widthE string // filled in from width()
}

func wireGen() (string, []string) {
	funcs := map[string]*ast.FuncDecl{}
	for i, f := range pkg.Syntax {
		if strings.HasSuffix(pkg.CompiledGoFiles[i], "_test.go") {
			continue
		}
		for _, d := range f.Decls {
			if fd, ok := d.(*ast.FuncDecl); ok && fd.Body != nil {
				funcs[recvName(fd)+"."+fd.Name.Name] = fd
			}
		}
	}
	tys := map[string]*wireTy{
		"bits": {lean: "UInt8", kind: ".u8"}, "Ident": {lean: "UInt8"}, "wbool": {lean: "Bool", kind: ".bool"},
		"wuint16": {lean: "UInt16", kind: ".u16"}, "wuint32": {lean: "UInt32", kind: ".u32"},
		"bindata": {lean: "Bytes", kind: ".bin"}, "rawdata": {lean: "Bytes"}, "vbint": {lean: "Nat", kind: ".vb"},
	}
	var names []string
	for n := range tys {
		names = append(names, n)
	}
	sort.Strings(names)
	var bad []string
	var sb strings.Builder
	sb.WriteString("import Mq.Fill\n")
	sb.WriteString("/-! GENERATED by /verif/extract (mqextract, wiregen.go) from /repo's wiretypes.go — do not edit; rewritten on every run.\n")
	sb.WriteString("Guards, widths and zero tests of the wire types. -/\nnamespace Mq.Gen\n\n")
	// ---- width
	for _, n := range names {
		t := tys[n]
		fd := funcs[n+".width"]
		w := ""
		if fd != nil {
			switch b := wireBody(fd); {
			case regexp.MustCompile(`^return \d+$`).MatchString(b):
				w = strings.TrimPrefix(b, "return ")
			case b == "return 2 + len(v)":
				w = "2 + v.length"
			case b == "return len(v)":
				w = "v.length"
			case b == "return v.fill(_LEN, 0)" && n == "vbint":
				w = "(fillVb v).dry"
			}
		}
		if w == "" {
			bad = append(bad, n+".width")
			w = "0"
		}
		t.widthE = w
		fmt.Fprintf(&sb, "def %s.width (v : %s) : Nat := %s\n", n, t.lean, w)
	}
	sb.WriteString("\n")
	widthOf := func(n, tok string) string {
		if tok == "v.width()" {
			return "(Mq.Gen." + n + ".width v)"
		}
		return tok
	}
	geq := map[string]string{">=": "≥", ">": ">"}
	cmp := map[string]string{"==": "=", "!=": "≠", "<": "<", "<=": "≤", ">": ">", ">=": "≥"}
	// ---- fill (bindata.fill calls wuint16.fill: fixed-size types first)
	for _, n := range []string{"Ident", "bits", "wbool", "wuint16", "wuint32", "bindata", "rawdata"} {
		t := tys[n]
		fd := funcs[n+".fill"]
		if fd == nil || n == "vbint" {
			continue // vbint.fill is a loop: hand model
		}
		b := wireBody(fd)
		def := ""
		if m := reFillRaw.FindStringSubmatch(b); m != nil && n == "rawdata" {
			def = fmt.Sprintf("fun b i =>\n  if b.length %s i + %s then (copyAt b i v, min v.length (b.length - i)) else (b, %s)", geq[m[1]], widthOf(n, "v.width()"), widthOf(n, "v.width()"))
		} else if m := reFillFixed.FindStringSubmatch(b); m != nil {
			guard := fmt.Sprintf("b.length %s i + %s", geq[m[1]], widthOf(n, m[2]))
			ret := widthOf(n, m[4])
			switch store := m[3]; {
			case store == "data[i] = byte(v)":
				def = fmt.Sprintf("fun b i => (if %s then b.set i v else b, %s)", guard, ret)
			case store == "if v { data[i] = 0x01 } else { data[i] = 0x00 }":
				def = fmt.Sprintf("fun b i => (if %s then b.set i (if v then 1 else 0) else b, %s)", guard, ret)
			case store == "binary.BigEndian.PutUint16(data[i:], uint16(v))":
				def = fmt.Sprintf("fun b i => (if %s then putU16 b i v else b, %s)", guard, ret)
			case store == "binary.BigEndian.PutUint32(data[i:], uint32(v))":
				def = fmt.Sprintf("fun b i => (if %s then putU32 b i v else b, %s)", guard, ret)
			case store == "i += wuint16(len(v)).fill(data, i) copy(data[i:], []byte(v))" && n == "bindata":
				def = fmt.Sprintf("fun b i =>\n  if %s then\n    let r := Mq.Gen.wuint16.fill (UInt16.ofNat v.length) b i\n    (copyAt r.1 (i + r.2) v, %s)\n  else (b, %s)", guard, ret, ret)
			}
		}
		if def == "" {
			bad = append(bad, n+".fill: "+b)
			def = "Filler.unknown " + leanStr(b)
		}
		fmt.Fprintf(&sb, "def %s.fill (v : %s) : Filler := %s\n\n", n, t.lean, def)
	}
	// ---- the zero test of fillProp
	for _, n := range names {
		t := tys[n]
		if t.kind == "" {
			continue
		}
		fd := funcs[n+".fillProp"]
		z := ""
		if fd != nil {
			if m := reFillProp.FindStringSubmatch(wireBody(fd)); m != nil {
				switch m[1] {
				case "v == 0":
					z = "v == 0"
				case "len(v) == 0":
					z = "v.isEmpty"
				case "!v":
					z = "!v"
				}
			}
		}
		if z == "" {
			bad = append(bad, n+".fillProp")
			z = "false"
		}
		fmt.Fprintf(&sb, "/-- `%s.fillProp` writes nothing when -/\ndef %s.isZero (v : %s) : Bool := %s\n\n", n, n, t.lean, z)
	}
	// ---- what every fillProp returns for the zero value and how it forms its result: (type, return for zero, `i - n`?)
	sb.WriteString("/-- per wire type: the value `fillProp` returns when it writes nothing, and whether its result is `i - n` -/\ndef fillPropTails : List (String × Nat × Bool) := [")
	firstTail := true
	for _, n := range append(append([]string{}, names...), "UserProp") {
		fd := funcs[n+".fillProp"]
		if fd == nil {
			continue
		}
		if m := reFillPropTail.FindStringSubmatch(wireBody(fd)); m != nil {
			if !firstTail {
				sb.WriteString(", ")
			}
			firstTail = false
			fmt.Fprintf(&sb, "(%q, %s, %v)", n, m[1], m[2] == "-")
		}
	}
	sb.WriteString("]\n\n")
	// ---- UnmarshalBinary of the fixed-size types, with the width `buffer.get` advances by
	lt := map[string]string{"<": "<", "<=": "≤"}
	for _, n := range []string{"bits", "Ident", "wbool", "wuint16", "wuint32"} {
		t := tys[n]
		fd := funcs[n+".UnmarshalBinary"]
		def := ""
		if fd != nil {
			b := wireBody(fd)
			if m := reDecByte.FindStringSubmatch(b); m != nil && m[1] == n {
				def = fmt.Sprintf("fun data => match data with\n  | [] => .panic\n  | a :: _ => .ok a (Mq.Gen.%s.width a)", n)
			} else if mb := reDecBool.FindStringSubmatch(b); mb != nil && n == "wbool" {
				def = fmt.Sprintf("fun data => match data with\n  | [] => .panic\n  | a :: _ => if a = %s then .ok false (Mq.Gen.wbool.width false) else if a = %s then .ok true (Mq.Gen.wbool.width true) else .err .badBool", mb[1], mb[2])
			} else if m := reDecFixed.FindStringSubmatch(b); m != nil && m[3] == n {
				be := "beU" + m[4]
				def = fmt.Sprintf("fun data =>\n  if data.length %s %s then .err .missing else .ok (%s data) (Mq.Gen.%s.width (%s data))", lt[m[1]], m[2], be, n, be)
			} else {
				bad = append(bad, n+".UnmarshalBinary: "+b)
			}
		}
		if def == "" {
			def = "fun _ => .panic"
			if fd == nil {
				bad = append(bad, n+".UnmarshalBinary")
			}
		}
		fmt.Fprintf(&sb, "def %s.dec : Dec %s := %s\n\n", n, t.lean, def)
	}
	// ---- the variable-length decoders: bindata (strings, binary data), vbint (in memory), UserProp
	all := func(xs ...string) bool {
		for _, x := range xs[1:] {
			if x != xs[0] {
				return false
			}
		}
		return true
	}
	binDef := "fun _ => .panic"
	if fd := funcs["bindata.UnmarshalBinary"]; fd != nil {
		b := wireBody(fd)
		if m := reDecBin.FindStringSubmatch(b); m != nil && all(m[1], m[2], m[4], m[6], m[7], m[9]) {
			binDef = fmt.Sprintf(`fun data =>
  let length : Nat := Mq.Gen.bindata.len data
  if data.length %s length + %s then .err .missing
  else if length %s 0 then .ok old (Mq.Gen.bindata.width old)                              -- the destination is left alone
  else if length + %s > data.length then .panic                                            -- data[lo:hi] beyond the data
  else
    let v := copyAt (List.replicate length 0) 0 ((data.take (length + %s)).drop %s)        -- make + copy
    .ok v (Mq.Gen.bindata.width v)`, lt[m[3]], m[5], cmp[reDecBinOps.FindStringSubmatch(b)[1]], m[10], m[10], m[8])
		} else {
			bad = append(bad, "bindata.UnmarshalBinary: "+b)
		}
	} else {
		bad = append(bad, "bindata.UnmarshalBinary")
	}
	sb.WriteString("/-- `var length wuint16; _ = length.UnmarshalBinary(data)`: the error is dropped, the length stays 0 -/\ndef bindata.len (data : Bytes) : Nat := match Mq.Gen.wuint16.dec data with | .ok x _ => x.toNat | _ => 0\n\n")
	fmt.Fprintf(&sb, "/-- `bindata.UnmarshalBinary` then `width()`; `old` is what the destination held -/\ndef bindata.dec (old : Bytes) : Dec Bytes := %s\n\n", binDef)

	vbOK := false
	if fd := funcs["vbint.UnmarshalBinary"]; fd != nil {
		b := wireBody(fd)
		if m := reDecVb.FindStringSubmatch(b); m != nil && all(m[1], m[7], m[8], m[14], m[15]) && all(m[2], m[4], m[13]) && all(m[3], m[5], m[11]) {
			vbOK = true
			fmt.Fprintf(&sb, `/-- the loop of `+"`vbint.UnmarshalBinary`"+` (`+"`for _, encodedByte := range data`"+`); falling out of it is the final return -/
def vbint.decLoop : Bytes → Nat → Nat → DecRes Nat
  | [], _, _ => .err .missing
  | b :: rest, mult, acc =>
    let acc' := acc + (b.toNat &&& %s) * mult
    if mult %s %s then .err .sizeExceeded
    else if b.toNat &&& %s %s 0 then .ok acc' (Mq.Gen.vbint.width acc')
    else vbint.decLoop rest (mult * %s) acc'

def vbint.dec : Dec Nat := fun data => if data.length %s 0 then .err .missing else vbint.decLoop data 1 0

`, m[6], geq[m[9]], m[10], m[12], cmp[reDecVbOps.FindStringSubmatch(b)[2]], m[16], cmp[reDecVbOps.FindStringSubmatch(b)[1]])
		} else {
			bad = append(bad, "vbint.UnmarshalBinary: "+b)
		}
	} else {
		bad = append(bad, "vbint.UnmarshalBinary")
	}
	if !vbOK {
		sb.WriteString("def vbint.dec : Dec Nat := fun _ => .panic\n\n")
	}

	pairW := ""
	if fd := funcs["UserProp.width"]; fd != nil && wireBody(fd) == "return wstring(v[0]).width() + wstring(v[1]).width()" {
		pairW = "Mq.Gen.bindata.width v.1 + Mq.Gen.bindata.width v.2"
	} else {
		bad = append(bad, "UserProp.width")
		pairW = "0"
	}
	fmt.Fprintf(&sb, "def UserProp.width (v : Bytes × Bytes) : Nat := %s\n\n", pairW)
	pairDef := "fun _ => .panic"
	if fd := funcs["UserProp.UnmarshalBinary"]; fd != nil {
		b := wireBody(fd)
		if m := reDecPair.FindStringSubmatch(b); m != nil && all(m[1], m[2], m[3]) && all(m[4], m[8]) && all(m[6], m[7], m[9]) {
			pairDef = fmt.Sprintf(`fun data =>
  match Mq.Gen.bindata.dec [] data with
  | .ok k _ =>
    if k.length + %s > data.length then .panic                                             -- data[i:] beyond the data
    else match Mq.Gen.bindata.dec [] (data.drop (k.length + %s)) with
      | .ok v _ => .ok (k, v) (Mq.Gen.UserProp.width (k, v))
      | .err e => .err e
      | .panic => .panic
  | .err e => .err e
  | .panic => .panic`, m[5], m[5])
		} else {
			bad = append(bad, "UserProp.UnmarshalBinary: "+b)
		}
	} else {
		bad = append(bad, "UserProp.UnmarshalBinary")
	}
	fmt.Fprintf(&sb, "def UserProp.dec : Dec (Bytes × Bytes) := %s\n\n", pairDef)
	if fd := funcs["UserProp.UnmarshalBinary"]; fd != nil {
		fmt.Fprintf(&sb, "/-- both error tests of `UserProp.UnmarshalBinary` are spelled `err != nil` -/\ndef UserProp.errTests : Bool := %v\n\n", !strings.Contains(wireBody(fd), "err == nil"))
	} else {
		sb.WriteString("def UserProp.errTests : Bool := false\n\n")
	}

	// ---- rawdata.UnmarshalBinary (the PUBLISH payload, the body of Undefined): a copy of everything that is left
	rawDef := "fun _ => .panic"
	if fd := funcs["rawdata.UnmarshalBinary"]; fd != nil {
		if b := wireBody(fd); b == "*v = make([]byte, len(data)) ; copy(*v, data) ; return nil" {
			rawDef = "fun data =>\n  let v := copyAt (List.replicate data.length 0) 0 data\n  .ok v (Mq.Gen.rawdata.width v)"
		} else {
			bad = append(bad, "rawdata.UnmarshalBinary: "+b)
		}
	} else {
		bad = append(bad, "rawdata.UnmarshalBinary")
	}
	fmt.Fprintf(&sb, "def rawdata.dec : Dec Bytes := %s\n\n", rawDef)

	// ---- vbint.fill: the encoder loop
	vbFill := false
	if fd := funcs["vbint.fill"]; fd != nil {
		b := wireBody(fd)
		if m := reFillVb.FindStringSubmatch(b); m != nil && all(m[1], m[4], m[6], m[7], m[9], m[14]) && all(m[3], m[10], m[11], m[13]) && all(m[2], m[15]) && all(m[5], m[8]) {
			vbFill = true
			fmt.Fprintf(&sb, `/-- the loop of `+"`vbint.fill`"+`, one unit of fuel per iteration (the value itself always suffices) -/
def vbint.fillAux : Nat → Nat → Bytes → Nat → Bytes × Nat
  | 0, x, b, i => (if i < b.length then b.set i (UInt8.ofNat x) else b, 1)
  | fuel + 1, x, b, i =>
    let e := if x / %s %s 0 then (x %% %s) ||| %s else x %% %s
    let b' := if i %s b.length then b.set i (UInt8.ofNat e) else b
    if x / %s %s 0 then (b', 1)
    else
      let r := vbint.fillAux fuel (x / %s) b' (i + 1)
      (r.1, r.2 + 1)

def vbint.fill (v : Nat) : Filler := fun b i => vbint.fillAux v v b i

`, m[8], cmp[reFillVbOps.FindStringSubmatch(b)[1]], m[5], m[12], m[5], cmp[reFillVbOps.FindStringSubmatch(b)[2]], m[8], cmp[reFillVbOps.FindStringSubmatch(b)[3]], m[8])
		} else {
			bad = append(bad, "vbint.fill: "+b)
		}
	} else {
		bad = append(bad, "vbint.fill")
	}
	if !vbFill {
		sb.WriteString("def vbint.fill (_ : Nat) : Filler := Filler.unknown \"vbint.fill\"\n\n")
	}
	// ---- UserProp.fill
	pairFill := "Filler.unknown \"UserProp.fill\""
	if fd := funcs["UserProp.fill"]; fd != nil {
		if b := wireBody(fd); b == "i += wstring(v[0]).fill(data, i) ; _ = wstring(v[1]).fill(data, i) ; return v.width()" {
			pairFill = `fun b i =>
  let r1 := Mq.Gen.bindata.fill v.1 b i
  let r2 := Mq.Gen.bindata.fill v.2 r1.1 (i + r1.2)
  (r2.1, Mq.Gen.UserProp.width v)`
		} else {
			bad = append(bad, "UserProp.fill: "+b)
		}
	} else {
		bad = append(bad, "UserProp.fill")
	}
	fmt.Fprintf(&sb, "def UserProp.fill (v : Bytes × Bytes) : Filler := %s\n\n", pairFill)

	// ---- UserProp.fillProp and UserProperties.properties (the user properties of every packet type)
	upZero := "false"
	if fd := funcs["UserProp.fillProp"]; fd != nil {
		if m := reFillProp.FindStringSubmatch(wireBody(fd)); m != nil && m[1] == "len(v[0]) == 0" {
			upZero = "v.1.isEmpty"
		} else {
			bad = append(bad, "UserProp.fillProp: "+wireBody(fd))
		}
	} else {
		bad = append(bad, "UserProp.fillProp")
	}
	fmt.Fprintf(&sb, "/-- `UserProp.fillProp`: nothing for an empty key, else identifier and pair -/\ndef UserProp.fillProp (id : UInt8) (v : Bytes × Bytes) : Filler := fun b i =>\n  if %s then (b, 0) else Filler.seq (Mq.Gen.Ident.fill id) (Mq.Gen.UserProp.fill v) b i\n\n", upZero)
	upsDef := "Filler.unknown \"UserProperties.properties\""
	if fd := funcs["UserProperties.properties"]; fd != nil {
		b := wireBody(fd)
		if m := regexp.MustCompile(`^n := i ; for _, (\w+) := range \*v \{ i \+= (\w+)\.fillProp\(data, i, (\w+)\) \} ; return i - n$`).FindStringSubmatch(b); m != nil && m[1] == m[2] {
			if c, ok := identConst(m[3]); ok {
				upsDef = fmt.Sprintf("Filler.seqs (ups.map fun kv => Mq.Gen.UserProp.fillProp %d kv)", c)
			}
		}
		if strings.HasPrefix(upsDef, "Filler.unknown") {
			bad = append(bad, "UserProperties.properties: "+b)
		}
	} else {
		bad = append(bad, "UserProperties.properties")
	}
	fmt.Fprintf(&sb, "/-- `UserProperties.properties(b, i)`: every pair in order, each through `fillProp` -/\ndef UserProperties.properties (ups : List (Bytes × Bytes)) : Filler := %s\n\n", upsDef)

	sort.Strings(bad)
	fmt.Fprintf(&sb, "def untranslatedWire : List String := [%s]\n\n", quoteAll(wireSub(bad, "fixed")))
	fmt.Fprintf(&sb, "def untranslatedWireVar : List String := [%s]\n\n", quoteAll(wireSub(bad, "var")))
	fmt.Fprintf(&sb, "def untranslatedWireVb : List String := [%s]\n\nend Mq.Gen\n", quoteAll(wireSub(bad, "vb")))
	return sb.String(), bad
}
